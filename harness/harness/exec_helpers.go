package harness

import (
	"context"
	"time"

	"github.com/klev-dev/klevdb"
	"github.com/klev-dev/klevdb/verifsim/sim"
	"github.com/klev-dev/klevdb/verifsim/simos"
)

// simosRemove removes a file through the tap, so that the disk model follows harness-made
// changes to the directory (index loss while closed).
func simosRemove(path string) error { return simos.Remove(path) }

// HelperCall describes a trim/compact helper invocation for the C15/C16 oracles.
type HelperCall struct {
	Kind       string // trim_off, trim_cnt, trim_size, trim_age, cmp_upd, cmp_del
	Variant    int64  // 0 single-segment, 1 Multi, 2 MultiOffsets
	Bound      int64  // offset / count / size / time (µs)
	StatBefore klevdb.Stats
	StatErr    error
}

func (r *Run) execHelper(ctx context.Context, op *Op) {
	hc := &HelperCall{Kind: op.K, Variant: op.A}
	switch op.K {
	case "trim_off":
		hc.Bound = op.B
		if op.Sel != nil {
			if offs := op.Sel.Resolve(r.M, r.Dir); len(offs) > 0 {
				hc.Bound = offs[0] + op.B
			} else {
				hc.Bound = r.M.Next + op.B
			}
		}
	case "trim_cnt":
		hc.Bound = int64(len(r.M.Live)) * op.B / 1000
	case "trim_size":
		var st klevdb.Stats
		err := guard(func() error {
			var e error
			st, e = r.L.Stat()
			return e
		})
		hc.StatBefore, hc.StatErr = st, err
		if err != nil {
			r.unexpected("Stat", err)
			return
		}
		hc.Bound = st.Size * op.B / 1000
	case "trim_age", "cmp_upd", "cmp_del":
		hc.Bound = op.T.Resolve(r.M, sim.NowUS())
	}
	r.Ctx["helper"] = hc
	if r.H.BeforeHelper != nil {
		r.H.BeforeHelper(r, op, hc)
		if r.stopped() {
			return
		}
	}
	bo := r.backoff(op.C)
	tm := time.UnixMicro(hc.Bound)
	var got []klevdb.Message
	var gotOffs []int64
	var offs map[int64]struct{}
	var size int64
	useOffs := false
	err := guard(func() error {
		var e error
		switch op.K {
		case "trim_off":
			switch op.A {
			case 0:
				got, size, e = klevdb.TrimByOffset(ctx, r.L, hc.Bound)
			case 1:
				got, size, e = klevdb.TrimByOffsetMulti(ctx, r.L, hc.Bound, bo)
			default:
				offs, size, e = klevdb.TrimByOffsetMultiOffsets(ctx, r.L, hc.Bound, bo)
				useOffs = true
			}
		case "trim_cnt":
			switch op.A {
			case 0:
				got, size, e = klevdb.TrimByCount(ctx, r.L, int(hc.Bound))
			case 1:
				got, size, e = klevdb.TrimByCountMulti(ctx, r.L, int(hc.Bound), bo)
			default:
				offs, size, e = klevdb.TrimByCountMultiOffsets(ctx, r.L, int(hc.Bound), bo)
				useOffs = true
			}
		case "trim_size":
			switch op.A {
			case 0:
				got, size, e = klevdb.TrimBySize(ctx, r.L, hc.Bound)
			case 1:
				got, size, e = klevdb.TrimBySizeMulti(ctx, r.L, hc.Bound, bo)
			default:
				got, size, e = klevdb.TrimBySizeMultiOffsets(ctx, r.L, hc.Bound, bo)
			}
		case "trim_age":
			switch op.A {
			case 0:
				got, size, e = klevdb.TrimByAge(ctx, r.L, tm)
			case 1:
				got, size, e = klevdb.TrimByAgeMulti(ctx, r.L, tm, bo)
			default:
				offs, size, e = klevdb.TrimByAgeMultiOffsets(ctx, r.L, tm, bo)
				useOffs = true
			}
		case "cmp_upd":
			switch op.A {
			case 0:
				got, size, e = klevdb.CompactUpdates(ctx, r.L, tm)
			case 1:
				got, size, e = klevdb.CompactUpdatesMulti(ctx, r.L, tm, bo)
			default:
				offs, size, e = klevdb.CompactUpdatesMultiOffsets(ctx, r.L, tm, bo)
				useOffs = true
			}
		case "cmp_del":
			switch op.A {
			case 0:
				got, size, e = klevdb.CompactDeletes(ctx, r.L, tm)
			case 1:
				got, size, e = klevdb.CompactDeletesMulti(ctx, r.L, tm, bo)
			default:
				offs, size, e = klevdb.CompactDeletesMultiOffsets(ctx, r.L, tm, bo)
				useOffs = true
			}
		}
		return e
	})
	if useOffs {
		gotOffs = sortedKeys(offs)
		if gotOffs == nil {
			gotOffs = []int64{}
		}
	}
	r.applyDeleted(op.K, []int64{hc.Bound}, fromKs(got), gotOffs, size, err)
	r.probe(op.K)
	if err != nil && !r.stopped() && !interruptedByHarness(err) {
		r.unexpected(op.K, err)
	}
}
