package harness

import (
	"context"
	"fmt"
	"os"
	"path/filepath"
	"sort"
	"sync"

	"github.com/klev-dev/klevdb"
	"github.com/klev-dev/klevdb/verifsim/sim"
)

// Concurrent variant of the C06 check: publishers and Sync callers run as tasks under the
// serialized scheduler while the FS tap records; every file-system step is a power-loss
// point, and the watermark at a point is the largest offset a Sync (or a Publish under
// AutoSync) had *returned* before the next file-system step. No deletes in these plans, so
// what was acknowledged is simply every offset below the watermark.

func genPlanC06(def *PropDef, tier string, seed uint64, run int64) *Plan {
	rng := NewRng(seed)
	if rng.Intn(100) >= 25 {
		return genPlanK(def, tier, seed, run)
	}
	cfg := RunCfg{Profile: "durability-concurrent", StartUS: defaultStartUS + rng.I64(0, 1000000), ObsSeed: rng.U64(), Monotone: true, KeySet: sKeys}
	cfg.Keys, cfg.Times = rng.Bool(), rng.Bool()
	cfg.Open = OpenOpts{Rollover: []int64{1, 60, 100, 200, 0}[rng.Intn(5)], NewV: rng.Pick(30, 25, 45), AutoSync: rng.Chance(35)}
	plan := &Plan{Prop: def.ID, Engine: "K", Tier: tier, Seed: seed, Run: run, Cfg: cfg}
	genSetupSimple(rng, plan)
	np, ns := rng.Range(1, 3), rng.Range(1, 2)
	for t := 0; t < np; t++ {
		var script []Op
		for c, n := 0, rng.Range(1, 4); c < n; c++ {
			op := Op{K: "pub"}
			for i, b := 0, rng.Range(1, 2); i < b; i++ {
				op.Msgs = append(op.Msgs, PMsg{Key: sKeys[rng.Intn(len(sKeys))], Val: sVal(t, c, i), TMode: 2})
			}
			script = append(script, op)
		}
		plan.Tasks = append(plan.Tasks, script)
	}
	for t := 0; t < ns; t++ {
		var script []Op
		for c, n := 0, rng.Range(1, 3); c < n; c++ {
			script = append(script, Op{K: "sync"})
		}
		plan.Tasks = append(plan.Tasks, script)
	}
	plan.Sched = genSched(rng, len(plan.Tasks))
	return plan
}

func runPlanC06Conc(def *PropDef, p *Plan, scratch string) *RunResult {
	base := filepath.Join(scratch, fmt.Sprintf("r%d", p.Run))
	_ = os.RemoveAll(base)
	defer os.RemoveAll(base)
	res := &RunResult{Run: p.Run, Seed: p.Seed, Evals: 1, Probes: map[string]int{}, Faults: map[string]int{}}
	r := NewRun(p, base, Hooks{})
	tr := sim.NewFSTrace()

	sim.BeginInline(p.Seed, p.Cfg.StartUS)
	sim.FS = tr
	if err := os.MkdirAll(base, 0o755); err != nil {
		panic(infraErr{err})
	}
	if err := r.open(p.Cfg.Open); err != nil {
		sim.FS = nil
		sim.End()
		res.Abort = "open: " + err.Error()
		return res
	}
	for i := range p.Ops {
		r.Step = i + 1
		r.execOp(&p.Ops[i])
		if r.stopped() {
			break
		}
	}
	clock := sim.NowUS()
	sim.FS = nil
	sim.End()
	if r.stopped() || r.L == nil {
		res.Abort = "setup: " + r.Abort
		return res
	}
	setupNext := r.M.Next
	setupEvents := len(tr.Events)

	nt := len(p.Tasks)
	hist := make([][]hOp, nt)
	s := sim.Begin(Mix(p.Seed, 4242), clock, schedCfg(p.Sched))
	tr.Stamp = func() int64 { return int64(s.Steps()) }
	sim.FS = tr
	for i := 0; i < nt; i++ {
		s.AddTask(fmt.Sprintf("task%d", i))
	}
	ctxs := []context.Context{context.Background()}
	var wg sync.WaitGroup
	for i := 0; i < nt; i++ {
		wg.Add(1)
		go func(ti int) {
			defer wg.Done()
			s.TaskBegin(ti)
			h := make([]hOp, 0, len(p.Tasks[ti]))
			for ci := range p.Tasks[ti] {
				in := p.Tasks[ti][ci]
				e := hOp{Task: ti, Idx: ci, In: in}
				e.Call = s.StepStamp()
				e.Out = doCall(r.L, nil, ctxs, &p.Cfg, &in)
				e.Ret = s.StepStamp()
				h = append(h, e)
			}
			hist[ti] = h
			s.TaskEnd(ti)
		}(i)
	}
	s.Start()
	wg.Wait()
	s.WaitIdle()
	res.Steps = s.Steps()
	res.Faults["context_switch"] = s.Switches()
	sigSched := fmt.Sprintf("%x", s.SigHash())
	trace := s.Trace()
	sim.FS = nil
	sim.End()
	// the log stays open: a power loss does not wait for Close
	defer func() { _ = guard(func() error { return r.L.Close() }) }()

	for _, t := range trace {
		r.digest = Mix(r.digest, uint64(t))
	}
	// published messages by offset, acknowledgements
	pub := map[int64]Msg{}
	for _, m := range r.M.Published {
		pub[m.Off] = m
	}
	type ack struct{ w, ret int64 }
	var acks []ack
	for ti := range hist {
		for _, e := range hist[ti] {
			r.logf("t%d.%d %s -> %s [%d,%d]", ti, e.Idx, describeOp(e.In), e.Out.String(), e.Call, e.Ret)
			if e.Out.Err != nil {
				res.Viols = append(res.Viols, ViolRec{Violation: Violation{Prop: def.ID, Sig: def.ID + "|concurrent|" + callName(describeOp(e.In)) + "|error", Msg: fmt.Sprintf("%s failed in a fault-free concurrent run: %v", describeOp(e.In), e.Out.Err)}, Plan: p})
				return res
			}
			switch e.In.K {
			case "pub":
				for _, m := range e.Out.Pub {
					pub[m.Off] = m
				}
				if p.Cfg.Open.AutoSync {
					acks = append(acks, ack{e.Out.Next, e.Ret})
				}
			case "sync":
				acks = append(acks, ack{e.Out.Next, e.Ret})
			}
		}
	}
	res.Digest = r.digest
	events := tr.Events
	full := NewDisk()
	for i := range events {
		full.Apply(&events[i])
	}
	if d := full.SelfCheck(r.Dir); d != "" {
		res.Infra = "disk model self-check failed: " + d
		return res
	}
	// crash points: the mutations of the concurrent phase
	var muts []int
	for i := setupEvents; i < len(events); i++ {
		if events[i].Mutation() {
			muts = append(muts, i)
		}
	}
	rng := NewRng(Mix(p.Seed, 77))
	thorough := p.Tier == "thorough"
	maxPts := 30
	if thorough {
		maxPts = 200
	}
	sel := map[int]bool{}
	if f := p.Fault; f != nil {
		sel[f.Step-1] = true
	} else if len(muts) <= maxPts {
		for i := range muts {
			sel[i] = true
		}
	} else {
		for len(sel) < maxPts {
			sel[rng.Intn(len(muts))] = true
		}
	}
	var idx []int
	for i := range sel {
		if i >= 0 && i < len(muts) {
			idx = append(idx, i)
		}
	}
	sort.Ints(idx)
	res.Evals = 0
	sigSeen := map[string]bool{}
	states := map[string]bool{}
	for _, mi := range idx {
		ev := muts[mi]
		horizon := int64(1) << 62
		if mi+1 < len(muts) {
			horizon = events[muts[mi+1]].Stamp
		}
		w := int64(0)
		if p.Cfg.Open.AutoSync || true {
			// whatever the sequential set-up phase acknowledged is not tracked here; start from 0
		}
		for _, a := range acks {
			if a.ret < horizon && a.w > w {
				w = a.w
			}
		}
		d := NewDisk()
		for i := 0; i <= ev; i++ {
			d.Apply(&events[i])
		}
		files := d.under(r.Dir)
		var choices [][]int64
		if f := p.Fault; f != nil {
			choices = append(choices, f.Cuts)
		} else {
			mk := func(fn func() int64) []int64 {
				c := make([]int64, len(files))
				for i := range c {
					c[i] = fn()
				}
				return c
			}
			choices = append(choices, mk(func() int64 { return 0 }), mk(func() int64 { return 1000 }))
			n := 2
			if thorough {
				n = 8
			}
			for c := 0; c < n; c++ {
				choices = append(choices, mk(func() int64 {
					switch rng.Pick(35, 25, 40) {
					case 0:
						return 0
					case 1:
						return 1000
					}
					return int64(rng.Intn(1001))
				}))
			}
		}
		for _, cuts := range choices {
			img := filepath.Join(base, fmt.Sprintf("img%d", res.Evals))
			fi := map[string]int{}
			for i, fp := range files {
				fi[filepath.Base(fp)] = i
			}
			lost := false
			if err := d.Materialise(r.Dir, img, func(name string, o *fobj) []byte {
				pm := int64(1000)
				if i, ok := fi[name]; ok && i < len(cuts) {
					pm = cuts[i]
				}
				b := powerCut(o, pm)
				if len(b) != len(o.data) {
					lost = true
				}
				return b
			}); err != nil {
				panic(infraErr{err})
			}
			res.Evals++
			res.Faults["powerloss"]++
			if lost {
				res.Faults["powerloss_with_data_loss"]++
				states[fmt.Sprintf("conc|%s|w>%v", evName(&events[ev]), w > setupNext)] = true
			}
			sym, msg := checkPowerLossPrefix(p, img, pub, w, r.OOpts)
			os.RemoveAll(img)
			if sym == "" {
				continue
			}
			sig := fmt.Sprintf("%s|powerloss|concurrent|last=%s|symptom=%s", def.ID, evName(&events[ev]), sym)
			if sigSeen[sig] {
				continue
			}
			sigSeen[sig] = true
			pl := p.Clone()
			pl.Fault = &Fault{Kind: "powerloss", Step: mi + 1, Cuts: cuts}
			res.Viols = append(res.Viols, ViolRec{Violation: Violation{Prop: def.ID, Sig: sig,
				Msg: fmt.Sprintf("concurrent run, power loss after file-system step %d (%s), watermark %d (largest offset a Sync/AutoSync Publish had returned before the next step): %s", mi+1, evName(&events[ev]), w, msg)}, Plan: pl})
		}
	}
	if res.Evals == 0 {
		res.Evals = 1
	}
	for st := range states {
		res.Sigs = append(res.Sigs, st)
	}
	sort.Strings(res.Sigs)
	res.Extra = map[string]any{"schedule": sigSched, "fs_mutations_concurrent_phase": len(muts), "acks": len(acks), "images": res.Evals}
	return res
}

// checkPowerLossPrefix opens an image with Recover and checks: NextOffset >= w, the recovered
// messages are the published ones at offsets 0..n-1 for some n >= w.
func checkPowerLossPrefix(p *Plan, img string, pub map[int64]Msg, w int64, oo OpenOpts) (string, string) {
	sim.BeginInline(Mix(p.Seed, 31), lastClockUS)
	defer sim.End()
	o := oo
	o.Recover, o.Check, o.Eager, o.Readonly = true, false, false, false
	var l klevdb.Log
	if err := guard(func() error {
		var e error
		l, e = klevdb.Open(img, o.K(&p.Cfg))
		return e
	}); err != nil {
		return "recover-open-failed|" + errKind(err), fmt.Sprintf("Open with Recover failed: %v", err)
	}
	defer func() { _ = guard(func() error { return l.Close() }) }()
	next, err := l.NextOffset()
	if err != nil {
		return "nextoffset-error", err.Error()
	}
	R, _, diag := scanLog(l, 7, int(next)*2+len(pub)+50)
	if diag != "" {
		return "scan-error|" + scanDiagKind(diag), diag
	}
	if next < w {
		return "next-below-watermark", fmt.Sprintf("NextOffset=%d after recovery", next)
	}
	for i, m := range R {
		if m.Off != int64(i) {
			return "not-a-prefix", fmt.Sprintf("recovered offsets %v are not 0..n-1", msgOffs(R))
		}
		if pm, ok := pub[m.Off]; !ok || !sameMsg(pm, m) {
			return "not-what-was-published", fmt.Sprintf("recovered %v, published at that offset: %v (%v)", m, pm, ok)
		}
	}
	if int64(len(R)) < w {
		return "acked-message-lost", fmt.Sprintf("recovered only offsets %v", msgOffs(R))
	}
	return "", ""
}
