package harness

var commonAssume = []string{
	"seeded search samples histories; a clean batch is evidence, not proof",
	"the instrumented copy (imports of os/sync/sync-atomic/time/crypto-rand re-pointed to shims, channel ops translated to polling helpers) behaves like the shipped code; the repository's own tests pass against it with inactive shims",
	"files are real files on tmpfs; third-party code (flock, art, mmap) runs real and un-instrumented",
	"about one Publish in 120 of the engine-H profiles carries one message beyond the 64 MiB the writers accept (the whole batch must be refused and leave nothing behind); about 15 % of the multi helpers are interrupted by a failing backoff (they must report exactly what they removed); a third of the reopens are not observed, a fifth look through a read-only handle first",
	"one run in eight (engines H and S) drives the log through the typed facade TLog[string,string] with StringCodec; there the in-place assignment of offsets/times by Publish is not observable and is completed from the returned next offset and the simulated clock",
}

func init() {
	register(&PropDef{ID: "C01", Engine: "H", Profile: "fidelity", Hooks: hooksC01, Level: "exploration", QuickS: 45, ThorS: 600,
		Rule:      "one evaluation = one seeded history (12-85 API calls incl. reopen with re-drawn options, index loss, offline tools, clock jumps) with a full cursor scan compared to the reference model after every call; distinct_nontrivial counts distinct signatures (index configuration, time regime, rollover, versions, reached layout features: multi-segment / holes / empty head / emptied log / trimmed front, bucketed op mix) of runs that rolled over or deleted something",
		Trigger:   []string{"multi_segment", "deleted_some"},
		Assume:    commonAssume,
		Technique: "deterministic simulation: seeded history search against a reference model (scan = model after every step)"})
	register(&PropDef{ID: "C02", Engine: "H", Profile: "offsets", Hooks: hooksC02, Level: "exploration", QuickS: 40, ThorS: 480,
		Rule:      "one evaluation = one seeded history biased to tail deletes / delete-everything / empty batches / reopen / publish-again chains; after every call Publish/Sync/NextOffset results and the offsets visible in a scan are compared with the model's never-decreasing next offset; distinct_nontrivial counts distinct state signatures of runs in which the tail was deleted, the log emptied or the log reopened",
		Trigger:   []string{"tail_deleted", "log_emptied", "reopen"},
		Assume:    commonAssume,
		Technique: "deterministic simulation: seeded history search, offset bookkeeping oracle"})
	register(&PropDef{ID: "C03", Engine: "H", Profile: "holes", Hooks: hooksC03, Level: "exploration", QuickS: 40, ThorS: 600,
		Rule:      "one evaluation = one seeded history over hole patterns; at sampled steps Consume is called for every offset in [-5, NextOffset+2] x maxCount {1,2,7,40} (thorough: 1..40), with maxCount MaxInt64 / 2^40 / MaxInt32 and with offsets far beyond NextOffset and each result is checked against the predicate derived from the model, plus a full cursor walk from OffsetOldest; distinct_nontrivial counts distinct state signatures of runs whose log had holes when checked",
		Trigger:   []string{"holes_checked"},
		Assume:    commonAssume,
		Technique: "deterministic simulation: seeded history search, Consume predicate vs reference model over all offsets"})
	register(&PropDef{ID: "C04", Engine: "H", Profile: "holes", Hooks: hooksC04, Level: "exploration", QuickS: 40, ThorS: 480,
		Rule:      "one evaluation = one seeded history over hole patterns; at every step Get is called for every offset in [0, NextOffset+2], offsets far beyond NextOffset and both relative offsets, classified (message / ErrNotFound / ErrInvalidOffset) against the model and compared with Consume(o,1); distinct_nontrivial counts distinct state signatures of runs that deleted something",
		Trigger:   []string{"deleted_some"},
		Assume:    commonAssume,
		Technique: "deterministic simulation: seeded history search, Get taxonomy vs reference model over all offsets"})
	register(&PropDef{ID: "C09", Engine: "H", Profile: "keys", Hooks: hooksC09, Level: "exploration", QuickS: 40, ThorS: 480,
		Rule:      "one evaluation = one seeded history over a key set with nil, empty and real FNV-1a-64 colliding key pairs; at every step GetByKey/OffsetByKey/ConsumeByKey iteration for every key of the set plus absent keys (incl. never-published collision partners) are compared with the model; distinct_nontrivial counts distinct state signatures of runs that deleted something",
		Trigger:   []string{"deleted_some"},
		Assume:    commonAssume,
		Technique: "deterministic simulation: seeded history search with precomputed hash collisions, key lookups vs reference model"})
	register(&PropDef{ID: "C10", Engine: "H", Profile: "times", Hooks: hooksC10, Level: "exploration", QuickS: 40, ThorS: 480,
		Rule:      "one evaluation = one seeded never-decreasing-time history with runs of equal stamps at small rollover; at every step GetByTime/OffsetByTime for every query time within 2 us of any live or deleted message time (all distinct answers of a 1 us sweep) plus far past/future are compared with the model; distinct_nontrivial counts distinct state signatures of multi-segment runs",
		Trigger:   []string{"multi_segment"},
		Assume:    commonAssume,
		Technique: "deterministic simulation: seeded history search, time lookups vs reference model at every distinguishing query time"})
	register(&PropDef{ID: "C12", Engine: "H", Profile: "deletes", Hooks: hooksC12, Level: "exploration", QuickS: 40, ThorS: 480,
		Rule:      "one evaluation = one seeded history with Delete/DeleteMulti over offset sets of every kind (live, dead, unassigned, relative, mixed, spanning segments, whole head, tail, everything); each call is checked: returned subset of requested-and-live with original content, exact storage size by the reference codec, scan afterwards = before minus returned, progress, repeat deletes nothing; distinct_nontrivial counts distinct state signatures of runs in which a delete removed something",
		Trigger:   []string{"delete_checked"},
		Assume:    commonAssume,
		Technique: "deterministic simulation: seeded history search, per-call delete contract vs reference model and reference codec sizes"})
	register(&PropDef{ID: "C11", Engine: "H", Profile: "index", Hooks: hooksC11, Level: "exploration", QuickS: 45, ThorS: 600,
		Rule:      "one evaluation = one seeded history; at every Close every segment's index file is compared with the index the reference codec derives from its log file, and the observation battery taken before Close is compared with the battery after reopening copies of the directory with index files removed (none / all / each single one; thorough adds random subsets), read-write and read-only; distinct_nontrivial counts distinct state signatures of runs with at least one index-loss trial",
		Trigger:   []string{"index_loss_trial"},
		Assume:    commonAssume,
		Technique: "deterministic simulation: seeded history search with index-file loss between sessions, differential observation + reference-codec derived index"})
	register(&PropDef{ID: "C13", Engine: "H", Profile: "format", Hooks: hooksC13, Level: "exploration", QuickS: 40, ThorS: 480,
		Rule:      "one evaluation = one seeded history (message lengths 0-300 plus 64 KiB values, times over the int64 us range, both versions, foreign segments written by the reference encoder while closed); after every call every log and index file is strictly decoded by the independent reference codec and compared with the model, Size(m) is compared with the growth of the head files and Stat with os.Stat of the directory; distinct_nontrivial counts distinct state signatures of multi-segment runs",
		Trigger:   []string{"multi_segment"},
		Assume:    append([]string{"the single-message encode/decode round trip is a pure function: what is decided here is that every byte reachable through histories matches the documented layout, not an enumeration of all messages"}, commonAssume...),
		Technique: "deterministic simulation at the disk seam: independent reference codec re-reads everything the real encoders write; foreign segments for the real decoders"})
	register(&PropDef{ID: "C15", Engine: "H", Profile: "trim", Hooks: hooksC15, Level: "exploration", QuickS: 40, ThorS: 480,
		Rule:      "one evaluation = one seeded history on multi-segment logs with holes with Find*/Trim* calls (bounds below/inside/above the live range); each Find result must be a prefix of the live list with the bound-specific size, each Trim must remove only that prefix and (Multi) establish the bound; distinct_nontrivial counts distinct state signatures of runs with a checked Multi trim",
		Trigger:   []string{"trim_multi_checked"},
		Assume:    commonAssume,
		Technique: "deterministic simulation: seeded history search, trim contract vs reference model"})
	register(&PropDef{ID: "C16", Engine: "H", Profile: "kv", Hooks: hooksC16, Level: "exploration", QuickS: 40, ThorS: 480,
		Rule:      "one evaluation = one seeded history over 4-5 keys (nil, empty) with tombstones and repeated/alternated CompactUpdates / CompactDeletes / Compact at cut-offs below, inside and above the message times; the key -> latest value map must be unchanged and every removed message must satisfy the removal rule of its compaction; distinct_nontrivial counts distinct state signatures of runs in which a compaction removed something",
		Trigger:   []string{"compaction_removed"},
		Assume:    commonAssume,
		Technique: "deterministic simulation: seeded history search, latest-value-map invariant and removal rules vs reference model"})
	register(&PropDef{ID: "C17", Engine: "H", Profile: "versions", Hooks: hooksC17, Level: "exploration", QuickS: 40, ThorS: 480,
		Rule:      "one evaluation = one seeded history in which every reopen re-draws NewSegmentsVersion / KeepRewriteVersion / EagerVersionMigrate and may run offline Migrate (twice); content and the observation battery must be unchanged, and the version byte of every segment file must be the requested one (after Migrate / Eager: all; rollover-created: NewSegmentsVersion; rewritten: kept or changed as configured); distinct_nontrivial counts distinct state signatures of runs that reached a mixed-version directory or ran Migrate",
		Trigger:   []string{"mixed_versions", "migrate_checked"},
		Assume:    commonAssume,
		Technique: "deterministic simulation: seeded history search over version options, differential observation + reference-codec version detection"})
	register(&PropDef{ID: "C19", Engine: "H", Profile: "lock", Hooks: hooksC19, Gen: genPlanC19, Level: "exploration", QuickS: 40, ThorS: 480,
		Rule:      "one evaluation = one seeded sequence of writer sessions and reader sessions (1-3 read-only handles) on one directory with conflicting Open attempts, Opens that fail for other reasons (missing directory, damaged index header, unaligned index, a stray file named *.log without an offset so that listing the segments fails) and index loss between sessions, read-only sessions on a damaged newest log and on what a crashed delete leaves behind, two read-only handles on a directory without segments; Open must succeed exactly when the lock state machine allows it, a failed Open must leave the lock free, read-only handles must reject Publish/Delete, answer the battery like the model and like the writer, and leave every *.log byte-identical; distinct_nontrivial counts distinct state signatures of runs with a refused conflicting Open or a checked read-only battery",
		Trigger:   []string{"open_conflict", "ro_battery"},
		Assume:    append([]string{"several handles in one process stand for several processes: flock(2) conflicts apply between open file descriptions"}, commonAssume...),
		Technique: "deterministic simulation: seeded multi-handle open/close sequences vs lock state machine; differential read-only observation"})
	register(&PropDef{ID: "C20", Engine: "H", Profile: "backup", Hooks: hooksC20, Gen: genPlanC20, Level: "exploration", QuickS: 40, ThorS: 480,
		Rule:      "one evaluation = one seeded history with Log.Backup (a fifth through a read-only handle as its first call, index files lost) / package-level Backup into empty directories and repeated into the same directory across publish-only gaps (rollovers included; before a repeated backup the modification time of every source file is set from the plan: equal to its copy's, as under a coarse clock, or later); after each backup: Check(target), target log files = source log files, target index files the source's or implied by their log, observation battery of the opened target = battery of the source at the time of the call, source bytes unchanged; distinct_nontrivial counts distinct state signatures of runs with a repeated backup",
		Trigger:   []string{"backup_repeated"},
		Assume:    append([]string{"file modification times before a repeated backup are chosen by the plan (equal to the copy's or later), at a first backup they are the kernel's; the property is stated for append-only sources, where a size change accompanies every content change"}, commonAssume...),
		Technique: "deterministic simulation: seeded history search with repeated backups, differential observation source vs opened backup"})
	kAssume := append([]string{
		"crash model of C05/C06: a single write is atomic up to the torn variants generated; directory operations are durable in program order; 8-byte file headers are written atomically",
		"fsync effects are simulated by the shadow disk model driven by the fsync calls actually made (self-checked against the real directory after every run)",
	}, commonAssume...)
	register(&PropDef{ID: "C05", Engine: "K", Profile: "protocol", Gen: genPlanK, RunPlan: runPlanK, Level: "fault_enumeration", QuickS: 60, ThorS: 900,
		Rule:      "one evaluation = one crash image: a seeded protocol-heavy workload (publish at small rollover, deletes that keep/rebase/empty/remove segments, tail deletes, reopen with migrate/recover, process kills without Close followed by a new Open) is recorded at the file-system seam; every mutation of the trace (quick: up to 70 per run, biased to deletes/reopens) is a crash point, appends are additionally torn at several byte counts, and the recovery of an image is itself cut again (depth 2); each image is opened with Recover and must show an allowed state, agreeing views, unchanged NextOffset, idempotent recovery, and be appendable and pass Check; distinct_nontrivial counts distinct (operation kind, file-system step, sub-operation, torn, completed) classes of crash points evaluated",
		Assume:    kAssume,
		Technique: "deterministic simulation with fault injection: crash and torn-write images enumerated from the recorded FS trace, depth-2 crashes inside recovery"})
	register(&PropDef{ID: "C06", Engine: "K", Profile: "protocol", Gen: genPlanC06, RunPlan: runPlanK, Level: "fault_enumeration", QuickS: 60, ThorS: 900,
		Rule:      "one evaluation = one power-loss image: at every crash point of a recorded workload (with Sync calls, AutoSync in half of the runs, Close, process kills without Close followed by a new Open) each file is cut back to a length between its last fsynced length and its current length (all-synced, all-full and seeded mixes incl. cuts inside records); after Open(Recover) every message below the acknowledged watermark must be present, the recovered list must be a prefix of the crash-time list and NextOffset >= watermark; a quarter of the runs are concurrent (1-3 publisher tasks and 1-2 Sync callers under the serialized scheduler, FS tap on): there the watermark at a file-system step is the largest offset a Sync (or AutoSync Publish) had returned before the next step; distinct_nontrivial counts distinct crash-point classes at which an image actually lost un-synced bytes",
		Assume:    kAssume,
		Technique: "deterministic simulation with fault injection: power-loss images (per-file tail loss down to the fsynced length) enumerated from the recorded FS trace"})
	dAssume := append([]string{"validity of a record is decided by the independent reference codec (CRC-32C, trailer, length sanity); single-byte damage is always detected by CRC-32C"}, commonAssume...)
	register(&PropDef{ID: "C07", Engine: "D", Gen: genPlanD, RunPlan: runPlanD, Level: "fault_enumeration", QuickS: 45, ThorS: 600,
		Rule:      "one evaluation = one damaged head segment: a first segment of 3-12 random messages (V2, and V1 for truncations; four index configurations) is built through the real API, then damaged: undamaged, truncation at 0 and every length >= 8, (V2) every byte position >= 8 flipped / 0x00 / 0xFF / random, zero / 0xFF / random / duplicated-record tails of every length up to two records, index removed / truncated at every length / every byte flipped / extra items, log and index both torn (log cut inside record k+1, index cut to k-1..k+1 items plus a fragment) (quick: seeded sample of 300 per segment; thorough: all); Check and Open(Check) must accept exactly the clean segments, Recover and Open(Recover) must leave exactly the reference codec's longest valid prefix with a matching (or no) index, be a no-op when undamaged, and the result must pass Check before and after further appends; for 30 % of the cases Open with Recover and EagerVersionMigrate to the other format version must also succeed and hold exactly the records of that prefix; distinct_nontrivial counts distinct (damage kind, file, version, clean?, surviving-prefix length, index present) classes",
		Assume:    dAssume,
		Technique: "deterministic simulation with fault injection: enumerated stored-byte damage of a head segment, Recover/Check vs reference codec longest-valid-prefix"})
	register(&PropDef{ID: "C14", Engine: "D", Gen: genPlanD, RunPlan: runPlanD, Level: "fault_enumeration", QuickS: 45, ThorS: 600,
		Rule:      "one evaluation = one damaged multi-segment V2 log: a 3-5 segment log with keys repeated across segments is built through the real API and one *.log is damaged (single-bit flips, 1-8 byte overwrites, boundary values in the length fields of records, truncation at every length, zero-filled tails; quick: seeded sample of 400 per log, thorough: every position and bit of one segment); the log is reopened with default options and Consume (all offsets x maxCount 1,3,40), Get, GetByKey, ConsumeByKey, GetByTime run under recover() and an allocation meter: never a wrong message, no panic, bounded allocation; for in-place overwrites inside a record every call whose undamaged answer includes the record must fail and every call answered from other files must be unchanged; distinct_nontrivial counts distinct (damage kind, in-record?, damaged segment position) classes",
		Assume:    dAssume,
		Technique: "deterministic simulation with fault injection: enumerated stored-byte damage of one segment of a multi-segment log, differential read battery with must-error / must-equal / never-wrong classification"})
	sAssume := append([]string{
		"yields at every synchronisation, atomic, channel and file-system operation: complete for data-race-free code; racy code is caught by the race oracle rather than by interleaving its plain accesses",
		"exactly one task runs at a time; the hand-off between tasks is invisible to the race detector, so it sees only klevdb's own synchronisation (Go itself adds happens-before edges at file I/O, which can hide a race from uniform random schedules: hold and PCT strategies get most of the budget)",
		"porcupine Unknown (timeout) is counted as inconclusive, never as a violation",
	}, commonAssume...)
	register(&PropDef{ID: "C08", Engine: "S", Gen: genPlanC08, RunPlan: runPlanS, Race: true, Level: "exploration", QuickS: 60, ThorS: 900,
		Rule:      "one evaluation = one seeded schedule of 2-6 tasks x 1-4 calls (Publish, Consume, ConsumeByKey, Get, GetByKey, GetByTime, Delete, Sync, NextOffset, Stat, GC) on a log with 1-3 messages per segment (pre-populated segments, V1/V2, KeepRewriteVersion), run under the serialized scheduler with strategy random / PCT / hold (a victim parked at its j-th yield while the others run to completion) / sequential with pre-emptions, half of the workers under the race detector; oracles: no race report, no error or panic that no sequential execution produces, no deadlock/livelock, porcupine linearizability of the recorded history (plus a final sequential battery) against the reference model; distinct_nontrivial counts distinct schedule signatures (hash of the context-switch sequence with the yield site of each switch) of runs with at least one context switch",
		Assume:    sAssume,
		Technique: "deterministic simulation: serialized seeded scheduler over real goroutines (random/PCT/hold), Go race detector under a race-transparent hand-off, porcupine linearizability check"})
	register(&PropDef{ID: "C18", Engine: "S", Gen: genPlanC18, RunPlan: runPlanS, Race: true, Level: "exploration", QuickS: 60, ThorS: 900,
		Rule:      "one evaluation = one seeded schedule of 1-8 waiter tasks (ConsumeBlocking / ConsumeByKeyBlocking at offsets below, at, above NextOffset and relative), 0-3 publisher tasks and a controller (cancels - half of the contexts with a cause -, publishes, Close at a chosen yield or at quiescence, waits that start after Close, waits just below NextOffset that start when all publishers are done) under the serialized scheduler with yields inside the notifier (atomic loads, barrier token receive/send, close, select); oracles: nobody parked at quiescence who should have been woken, no return without a publish/close/cancel to justify it, successful results linearizable as Consume/ConsumeByKey, context and closed errors only when justified, no deadlock/panic/race; distinct_nontrivial counts distinct schedule signatures of runs with at least one context switch",
		Assume:    sAssume,
		Technique: "deterministic simulation: serialized seeded scheduler with yields inside the notifier, quiescence checks for lost/spurious wake-ups, porcupine for results"})
}
