package harness

import (
	"bytes"
	"fmt"
	"os"
	"path/filepath"
	"runtime/metrics"
	"sort"
	"strings"
	"time"

	"github.com/klev-dev/klevdb"
	"github.com/klev-dev/klevdb/verifsim/refcodec"
	"github.com/klev-dev/klevdb/verifsim/sim"
)

// ---- plan generation for engine D ----

func genPlanD(def *PropDef, tier string, seed uint64, run int64) *Plan {
	rng := NewRng(seed)
	cfg := &RunCfg{Profile: "damage", StartUS: defaultStartUS + rng.I64(0, 1000000), ObsSeed: rng.U64()}
	g := &genState{rng: rng, cfg: cfg, p: profile{name: "damage"}}
	plan := &Plan{Prop: def.ID, Engine: "D", Tier: tier, Seed: seed, Run: run}
	if def.ID == "C07" {
		cfg.Keys, cfg.Times = rng.Bool(), rng.Bool()
		g.regime = rng.Pick(30, 30, 40)
		if g.regime == 2 {
			g.regime = 2
		}
		cfg.Monotone = g.regime <= 1
		g.sizes = rng.Pick(15, 55, 30)
		cfg.KeySet = genKeySet(rng, g.p)
		cfg.Open = OpenOpts{Rollover: 0, NewV: rng.Pick(0, 35, 65)} // V1 35 %, V2 65 %
		n := rng.Range(3, 12)
		total := int64(n)
		for n > 0 {
			op := Op{K: "pub"}
			for i, k := 0, rng.Range(1, min(n, 4)); i < k; i++ {
				m := g.genMsg()
				m.Junk = 0
				op.Msgs = append(op.Msgs, m)
				n--
			}
			plan.Ops = append(plan.Ops, op)
		}
		if rng.Chance(30) {
			// a segment with a hole (a middle message deleted, rewritten in place) is as
			// undamaged as any other
			plan.Ops = append(plan.Ops, Op{K: "del", Sel: &OffSel{Kind: "abs", Abs: []int64{rng.I64(1, total-2)}}})
		}
	} else {
		// C14: a 3-5 segment V2 log, keys repeated across segments, no colliding keys
		cfg.Keys, cfg.Times = true, true
		if rng.Chance(20) {
			cfg.Keys, cfg.Times = rng.Bool(), rng.Bool()
		}
		g.regime = rng.Pick(50, 50)
		cfg.Monotone = true
		g.sizes = rng.Pick(0, 70, 30)
		cfg.KeySet = [][]byte{nil, []byte("a"), []byte("b"), []byte("key-c"), []byte("dd")}
		per := rng.Range(2, 4) // messages per segment
		cfg.Open = OpenOpts{Rollover: 1, NewV: 2}
		segs := rng.Range(3, 5)
		for s := 0; s < segs; s++ {
			// one publish per segment: rollover 1 rolls before every non-empty publish
			op := Op{K: "pub"}
			for i := 0; i < per; i++ {
				m := g.genMsg()
				m.Junk = 0
				if m.TMode == 2 {
					m.TMode, m.TV = 0, 1
				}
				op.Msgs = append(op.Msgs, m)
			}
			plan.Ops = append(plan.Ops, op)
		}
		if rng.Chance(30) {
			plan.Ops = append(plan.Ops, Op{K: "del", Sel: &OffSel{Kind: "live", Abs: []int64{int64(rng.Intn(1000))}}})
		}
	}
	plan.Cfg = *cfg
	return plan
}

type dEval struct {
	def      *PropDef
	plan     *Plan
	r        *Run
	res      *RunResult
	rng      *Rng
	base     string
	pristine dirSnap
	n        int
	sigSeen  map[string]bool
	classes  map[string]bool
}

func runPlanD(def *PropDef, p *Plan, scratch string) *RunResult {
	base := filepath.Join(scratch, fmt.Sprintf("r%d", p.Run))
	_ = os.RemoveAll(base)
	defer os.RemoveAll(base)
	r := NewRun(p, base, Hooks{})
	r.Exec()
	res := &RunResult{Run: p.Run, Seed: p.Seed, Probes: r.Probes, Steps: len(p.Ops), Digest: r.digest, Faults: map[string]int{}}
	if r.Viol != nil || r.Abort != "" {
		res.Abort = "build: " + r.Abort
		res.Evals = 1
		return res
	}
	de := &dEval{def: def, plan: p, r: r, res: res, rng: NewRng(Mix(p.Seed, 1234)), base: base, pristine: snapDir(r.Dir), sigSeen: map[string]bool{}, classes: map[string]bool{}}
	if def.ID == "C07" {
		de.runC07()
	} else {
		de.runC14()
	}
	if res.Evals == 0 {
		res.Evals = 1
	}
	res.Extra = map[string]any{"damages_evaluated": res.Evals, "by_kind": res.Faults, "pristine_files": len(de.pristine)}
	for c := range de.classes {
		res.Sigs = append(res.Sigs, c)
	}
	sort.Strings(res.Sigs)
	return res
}

func (de *dEval) report(f *Fault, sig, format string, a ...any) {
	full := de.def.ID + "|" + sig
	if de.sigSeen[full] {
		return
	}
	de.sigSeen[full] = true
	pl := de.plan.Clone()
	pl.Fault = f
	msg := fmt.Sprintf("damage %s: ", describeFault(f)) + fmt.Sprintf(format, a...)
	msg = strings.ReplaceAll(msg, de.base, "<run>")
	de.res.Viols = append(de.res.Viols, ViolRec{Violation: Violation{Prop: de.def.ID, Sig: full, Msg: msg}, Plan: pl})
}

func describeFault(f *Fault) string {
	if f.Also != nil {
		g := *f
		g.Also = nil
		return describeFault(&g) + " and " + describeFault(f.Also)
	}
	switch f.Kind {
	case "trunc":
		return fmt.Sprintf("truncate %s to %d bytes", f.File, f.Pos)
	case "flip":
		return fmt.Sprintf("flip bit %d of byte %d of %s", f.Bit, f.Pos, f.File)
	case "set":
		return fmt.Sprintf("overwrite %d byte(s) at %d of %s with %x", len(f.Data), f.Pos, f.File, f.Data)
	case "tail":
		return fmt.Sprintf("append %d %s bytes to %s", f.Len, f.Mode, f.File)
	case "rmindex":
		return "remove the index file"
	case "extra":
		return fmt.Sprintf("append %d extra item(s) to the index", f.Len)
	case "zerotail":
		return fmt.Sprintf("zero-fill %s from byte %d to its end", f.File, f.Pos)
	case "none":
		return "none (undamaged)"
	}
	return f.Kind
}

// applyFault damages the named file inside dir. File is a file name of the directory.
func applyFault(dir string, f *Fault) error {
	if f.Also != nil {
		g := *f
		g.Also = nil
		if err := applyFault(dir, &g); err != nil {
			return err
		}
		return applyFault(dir, f.Also)
	}
	if f.Kind == "none" {
		return nil
	}
	p := filepath.Join(dir, f.File)
	if f.Kind == "rmindex" {
		return os.Remove(p)
	}
	b, err := os.ReadFile(p)
	if err != nil {
		return err
	}
	switch f.Kind {
	case "trunc":
		if int(f.Pos) <= len(b) {
			b = b[:f.Pos]
		}
	case "flip":
		if int(f.Pos) < len(b) {
			b[f.Pos] ^= 1 << uint(f.Bit)
		}
	case "set", "zerotail":
		for i, c := range f.Data {
			if int(f.Pos)+i < len(b) {
				b[int(f.Pos)+i] = c
			}
		}
	case "tail", "extra":
		b = append(b, f.Data...)
	}
	return os.WriteFile(p, b, 0o600)
}

func (de *dEval) freshCopy(tag string) string {
	de.n++
	d := filepath.Join(de.base, fmt.Sprintf("%s%d", tag, de.n))
	if err := os.MkdirAll(d, 0o755); err != nil {
		panic(infraErr{err})
	}
	for n, b := range de.pristine {
		if err := os.WriteFile(filepath.Join(d, n), b, 0o600); err != nil {
			panic(infraErr{err})
		}
	}
	return d
}

// ---- C07 ----

func (de *dEval) runC07() {
	cfg := &de.plan.Cfg
	logName, idxName := fmt.Sprintf("%020d.log", 0), fmt.Sprintf("%020d.index", 0)
	logData, idxData := de.pristine[logName], de.pristine[idxName]
	ver, recs, _, clean, err := refcodec.DecodeLog(logData, 0)
	if err != nil || !clean || len(de.pristine) != 2 {
		de.res.Abort = "pristine segment does not decode cleanly"
		return
	}
	if f := de.plan.Fault; f != nil {
		de.evalC07(f)
		return
	}
	thorough := de.plan.Tier == "thorough"
	var faults []*Fault
	faults = append(faults, &Fault{Kind: "none"})
	// truncations: 0 and every length >= 8
	faults = append(faults, &Fault{Kind: "trunc", File: logName, Pos: 0})
	for l := int64(8); l < int64(len(logData)); l++ {
		faults = append(faults, &Fault{Kind: "trunc", File: logName, Pos: l})
	}
	recLen := 64
	if len(recs) > 0 {
		recLen = int(recs[len(recs)-1].Size)
	}
	if ver == refcodec.V2 {
		for pos := int64(8); pos < int64(len(logData)); pos++ {
			faults = append(faults, &Fault{Kind: "flip", File: logName, Pos: pos, Bit: de.rng.Intn(8)})
			for _, c := range []byte{0x00, 0xFF, byte(de.rng.Intn(256))} {
				if logData[pos] != c {
					faults = append(faults, &Fault{Kind: "set", File: logName, Pos: pos, Data: []byte{c}})
				}
			}
		}
		maxTail := 2 * recLen
		if maxTail > 400 && !thorough {
			maxTail = 400
		}
		for n := 1; n <= maxTail; n++ {
			faults = append(faults, &Fault{Kind: "tail", File: logName, Mode: "zero", Len: int64(n), Data: make([]byte, n)})
			faults = append(faults, &Fault{Kind: "tail", File: logName, Mode: "ff", Len: int64(n), Data: bytes.Repeat([]byte{0xFF}, n)})
			faults = append(faults, &Fault{Kind: "tail", File: logName, Mode: "random", Len: int64(n), Data: de.rng.Bytes(n)})
		}
		if len(recs) > 0 {
			last := recs[len(recs)-1]
			dup := logData[last.Pos : last.Pos+last.Size]
			for n := 1; n <= len(dup); n++ {
				faults = append(faults, &Fault{Kind: "tail", File: logName, Mode: "dup-record-prefix", Len: int64(n), Data: append([]byte(nil), dup[:n]...)})
			}
		}
	}
	// index damage
	faults = append(faults, &Fault{Kind: "rmindex", File: idxName})
	for l := int64(0); l < int64(len(idxData)); l++ {
		faults = append(faults, &Fault{Kind: "trunc", File: idxName, Pos: l})
	}
	for pos := int64(0); pos < int64(len(idxData)); pos++ {
		faults = append(faults, &Fault{Kind: "flip", File: idxName, Pos: pos, Bit: de.rng.Intn(8)})
	}
	isz := int(refcodec.ItemSize(cfg.Times, cfg.Keys))
	for n := 1; n <= 2; n++ {
		extra := de.rng.Bytes(n * isz)
		if len(idxData) >= isz && de.rng.Bool() {
			extra = bytes.Repeat(idxData[len(idxData)-isz:], n)
		}
		faults = append(faults, &Fault{Kind: "extra", File: idxName, Len: int64(n), Data: extra})
	}
	// both files torn (what a power loss during an append leaves): the log cut inside or at the
	// end of record k+1, the index cut to k-1, k or k+1 items plus a fragment of the next
	var both []*Fault
	hdr := len(idxData) - len(recs)*isz
	if hdr >= 0 && len(recs) > 0 {
		nb := 12
		if thorough {
			nb = 60
		}
		for i := 0; i < nb; i++ {
			k := de.rng.Intn(len(recs)) // records that stay valid
			rc := recs[k]
			cut := rc.Pos + int64(de.rng.Intn(int(rc.Size))) // 0 = exactly at the record boundary
			if cut < 8 && ver == refcodec.V2 {
				continue
			}
			items := k + de.rng.Pick(20, 60, 20) - 1
			if items < 0 {
				items = 0
			}
			if items > len(recs)-1 {
				items = len(recs) - 1
			}
			icut := int64(hdr + items*isz + de.rng.Range(1, isz-1))
			both = append(both, &Fault{Kind: "trunc", File: logName, Pos: cut, Also: &Fault{Kind: "trunc", File: idxName, Pos: icut}})
		}
	}
	if !thorough {
		// seeded sample of about 300; the boundary cases are always kept
		must := func(f *Fault) bool {
			switch f.Kind {
			case "none", "rmindex", "extra":
				return true
			case "trunc":
				if f.File == logName {
					return f.Pos == 0 || f.Pos == 8 || f.Pos == int64(len(logData))-1
				}
				return f.Pos == 0 || f.Pos == 8 || f.Pos == int64(len(idxData))-1
			}
			return false
		}
		var keep, rest []*Fault
		for _, f := range faults {
			if must(f) {
				keep = append(keep, f)
			} else {
				rest = append(rest, f)
			}
		}
		for len(keep) < 300 && len(rest) > 0 {
			j := de.rng.Intn(len(rest))
			keep = append(keep, rest[j])
			rest = append(rest[:j], rest[j+1:]...)
		}
		faults = keep
	}
	faults = append(faults, both...)
	for _, f := range faults {
		de.evalC07(f)
	}
}

func sameItems(a, b []refcodec.Item) bool {
	if len(a) != len(b) {
		return false
	}
	for i := range a {
		if a[i] != b[i] {
			return false
		}
	}
	return true
}

func faultSeed(seed uint64, f *Fault) uint64 {
	h := Mix(seed, uint64(f.Pos)*31+uint64(f.Bit)*7+uint64(len(f.Data)))
	for _, c := range []byte(f.Kind + f.File + f.Mode) {
		h = Mix(h, uint64(c))
	}
	for _, c := range f.Data {
		h = Mix(h, uint64(c))
	}
	if f.Also != nil {
		h = Mix(h, faultSeed(seed, f.Also))
	}
	return h
}

func (de *dEval) evalC07(f *Fault) {
	heartbeat()
	cfg := &de.plan.Cfg
	frng := NewRng(faultSeed(de.plan.Seed, f))
	de.res.Evals++
	if f.Also != nil {
		de.res.Faults[f.Kind+"_log_and_"+f.Also.Kind+"_index"]++
	} else {
		de.res.Faults[f.Kind+"_"+fileKind(f.File)]++
	}
	logName, idxName := fmt.Sprintf("%020d.log", 0), fmt.Sprintf("%020d.index", 0)
	kopts := klevdb.Options{KeyIndex: cfg.Keys, TimeIndex: cfg.Times}

	// reference verdict on the damaged files
	tmp := de.freshCopy("ref")
	if err := applyFault(tmp, f); err != nil {
		panic(infraErr{err})
	}
	dam := snapDir(tmp)
	os.RemoveAll(tmp)
	logData := dam[logName]
	idxData, hasIdx := dam[idxName]
	ver, recs, validLen, clean, err := refcodec.DecodeLog(logData, 0)
	if err != nil {
		return // header damage: outside the property's quantifier
	}
	P := logData[:validLen]
	derived := refcodec.DeriveIndex(recs, cfg.Times, cfg.Keys)
	idxOK := true
	if hasIdx {
		_, items, ierr := refcodec.DecodeIndex(idxData, 0, cfg.Times, cfg.Keys)
		idxOK = ierr == nil && sameItems(items, derived)
	}
	cleanSeg := clean && idxOK
	tag := f.Kind + "|" + fileKind(f.File) + "|" + verName(ver)
	if f.Also != nil {
		tag = f.Kind + "+" + f.Also.Kind + "|log+index|" + verName(ver)
	}
	de.classes[fmt.Sprintf("%s|clean=%v|prefix=%d/%d|idx=%v", tag, clean, len(recs), len(de.r.M.Live), hasIdx)] = true

	sim.BeginInline(frng.U64(), de.plan.Cfg.StartUS+1000000)
	defer sim.End()

	mk := func() string {
		d := de.freshCopy("d")
		if err := applyFault(d, f); err != nil {
			panic(infraErr{err})
		}
		return d
	}
	// 1. package-level Check, 2. Open(Check)
	d1 := mk()
	cerr := guard(func() error { return klevdb.Check(d1, kopts) })
	os.RemoveAll(d1)
	if (cerr == nil) != cleanSeg {
		de.report(f, "Check|"+tag+fmt.Sprintf("|accepted=%v|clean=%v", cerr == nil, cleanSeg), "Check returned %v; by the reference codec the log parses completely=%v and the index file matches the derived index (or is absent)=%v", cerr, clean, idxOK)
		return
	}
	if _, ok := cerr.(*panicErr); ok {
		de.report(f, "Check|"+tag+"|panic", "Check panicked: %v", cerr)
		return
	}
	d2 := mk()
	oo := de.r.OOpts
	oo.Check, oo.Recover, oo.Eager, oo.Readonly = true, false, false, false
	oerr := guard(func() error {
		l, e := klevdb.Open(d2, oo.K(cfg))
		if e == nil {
			e = l.Close()
		}
		return e
	})
	os.RemoveAll(d2)
	if (oerr == nil) != cleanSeg {
		de.report(f, "Open(Check)|"+tag+fmt.Sprintf("|accepted=%v|clean=%v", oerr == nil, cleanSeg), "Open with Check returned %v; reference: clean=%v", oerr, cleanSeg)
		return
	}
	// 3. Recover, package-level and through Open
	vias := []string{"Recover", "Open(Recover)"}
	if frng.Chance(30) {
		// Recover combined with an eager migration to the other format version: the valid
		// prefix must survive the combination as well
		vias = append(vias, "Open(Recover+Eager)")
	}
	for _, via := range vias {
		d := mk()
		var rerr error
		switch via {
		case "Recover":
			rerr = guard(func() error { return klevdb.Recover(d, kopts) })
		default:
			ro := de.r.OOpts
			// "If both Check and Recover are set, Open will directly try to recover": same thing
			ro.Check, ro.Recover, ro.Eager, ro.Readonly = frng.Chance(30), true, false, false
			if via == "Open(Recover+Eager)" {
				ro.Eager, ro.Keep, ro.NewV = true, false, 3-ver
			}
			rerr = guard(func() error {
				l, e := klevdb.Open(d, ro.K(cfg))
				if e == nil {
					e = l.Close()
				}
				return e
			})
		}
		if rerr != nil {
			de.report(f, via+"|"+tag+"|error|"+errKind(rerr), "%s failed: %v", via, rerr)
			os.RemoveAll(d)
			return
		}
		after := snapDir(d)
		derived := derived
		if via == "Open(Recover+Eager)" {
			// the records of the valid prefix, re-encoded: compared record by record
			v2, recs2, _, clean2, err2 := refcodec.DecodeLog(after[logName], 0)
			same := err2 == nil && clean2 && len(recs2) == len(recs)
			for i := 0; same && i < len(recs); i++ {
				a, b := recs2[i], recs[i]
				same = a.Off == b.Off && a.US == b.US && bytes.Equal(a.Key, b.Key) && bytes.Equal(a.Val, b.Val)
			}
			if !same {
				de.report(f, via+"|"+tag+"|log-not-longest-valid-prefix|after-migration", "after %s the log file holds %d records (decodes cleanly: %v, %v), the longest prefix of valid records has %d", via, len(recs2), clean2, err2, len(recs))
				os.RemoveAll(d)
				return
			}
			if len(recs) > 0 && v2 != 3-ver {
				de.report(f, via+"|"+tag+"|not-migrated", "after %s the log file is still in format V%d", via, v2)
				os.RemoveAll(d)
				return
			}
			derived = refcodec.DeriveIndex(recs2, cfg.Times, cfg.Keys)
			de.res.Probes["recover_with_eager_migration"]++
		} else {
			if via == "Open(Recover)" && len(recs) == 0 && bytes.Equal(after[logName], refcodec.LogHeader(refcodec.V2)) {
				// Open goes on to prepare the (empty) segment for writing: a header-only file is the empty log
				after[logName] = P
			}
			if !bytes.Equal(after[logName], P) {
				kind := "kept-too-much"
				if len(after[logName]) < len(P) {
					kind = "kept-too-little"
				} else if len(after[logName]) == len(P) {
					kind = "altered"
				}
				de.report(f, via+"|"+tag+"|log-not-longest-valid-prefix|"+kind, "after %s the log file has %d bytes, the longest prefix of valid records has %d (%d records)", via, len(after[logName]), len(P), len(recs))
				os.RemoveAll(d)
				return
			}
		}
		if ib, ok := after[idxName]; ok {
			_, items, ierr := refcodec.DecodeIndex(ib, 0, cfg.Times, cfg.Keys)
			if ierr != nil || !sameItems(items, derived) {
				de.report(f, via+"|"+tag+"|index-not-matching", "after %s the index file does not equal the index derived from the recovered log (%v)", via, ierr)
				os.RemoveAll(d)
				return
			}
		}
		for n := range after {
			if n != logName && n != idxName {
				de.report(f, via+"|"+tag+"|left-behind", "after %s the directory holds %s", via, n)
				os.RemoveAll(d)
				return
			}
		}
		if f.Kind == "none" && via != "Open(Recover+Eager)" {
			if dd := de.pristine.diff(after); dd != "" {
				de.report(f, via+"|undamaged|not-a-noop", "%s on an undamaged segment changed the directory: %s", via, dd)
				os.RemoveAll(d)
				return
			}
		}
		// 4. Check succeeds, and keeps succeeding after appends
		if e := guard(func() error { return klevdb.Check(d, kopts) }); e != nil {
			de.report(f, via+"|"+tag+"|check-after-recover", "Check after %s failed: %v", via, e)
			os.RemoveAll(d)
			return
		}
		po := de.r.OOpts
		po.Check, po.Recover, po.Eager, po.Readonly = false, false, false, false
		var l klevdb.Log
		if e := guard(func() error {
			var e error
			l, e = klevdb.Open(d, po.K(cfg))
			return e
		}); e != nil {
			de.report(f, via+"|"+tag+"|open-after-recover|"+errKind(e), "Open after %s failed: %v", via, e)
			os.RemoveAll(d)
			return
		}
		var maxUS int64
		for _, rc := range recs {
			if rc.US > maxUS {
				maxUS = rc.US
			}
		}
		k := 1 + frng.Intn(3)
		fresh := make([]klevdb.Message, k)
		for i := range fresh {
			fresh[i] = klevdb.Message{Key: []byte("new"), Value: []byte{byte(i), 1, 2, 3}, Time: time.UnixMicro(maxUS + int64(i) + 1)}
		}
		_, perr := l.Publish(fresh)
		var want []Msg
		for _, rc := range recs {
			want = append(want, Msg{Off: rc.Off, US: rc.US, Key: rc.Key, Val: rc.Val})
		}
		want = append(want, fromKs(fresh)...)
		got, _, diag := scanLog(l, 5, len(want)*2+20)
		clerr := guard(func() error { return l.Close() })
		if perr != nil || clerr != nil {
			de.report(f, via+"|"+tag+"|append-after-recover", "Publish/Close after %s failed: %v / %v", via, perr, clerr)
			os.RemoveAll(d)
			return
		}
		increasing := true
		for i := 1; i < len(recs); i++ {
			if recs[i].Off <= recs[i-1].Off {
				increasing = false // a duplicated record is a valid record; what a scan shows then is not specified
			}
		}
		if increasing && (diag != "" || diffLive(got, want) != "") {
			de.report(f, via+"|"+tag+"|scan-after-append", "after %s and appending %d messages the scan is wrong: %s %s", via, k, diag, diffLive(got, want))
			os.RemoveAll(d)
			return
		}
		if e := guard(func() error { return klevdb.Check(d, kopts) }); e != nil && (!cfg.Times || (monotoneRecs(recs) && maxUS < 1<<62)) {
			de.report(f, via+"|"+tag+"|check-after-append", "Check after %s and appending failed: %v", via, e)
			os.RemoveAll(d)
			return
		}
		os.RemoveAll(d)
	}
}

func monotoneRecs(recs []refcodec.Rec) bool {
	for i := 1; i < len(recs); i++ {
		if recs[i].US < recs[i-1].US {
			return false
		}
	}
	return true
}

func fileKind(name string) string {
	switch {
	case strings.HasSuffix(name, ".log"):
		return "log"
	case strings.HasSuffix(name, ".index"):
		return "index"
	}
	return "dir"
}

// ---- C14 ----

type callRes struct {
	Kind  string
	Key   []byte
	Off   int64
	Name  string
	Msgs  []Msg
	Next  int64
	Err   error
	Alloc uint64
}

var allocSample = []metrics.Sample{{Name: "/gc/heap/allocs:bytes"}}

func allocBytes() uint64 {
	metrics.Read(allocSample)
	return allocSample[0].Value.Uint64()
}

func meter(name string, f func() (int64, []Msg, error)) callRes {
	a0 := allocBytes()
	var next int64
	var msgs []Msg
	err := guard(func() error {
		var e error
		next, msgs, e = f()
		return e
	})
	return callRes{Name: name, Msgs: msgs, Next: next, Err: err, Alloc: allocBytes() - a0}
}

// c14Battery runs the read calls of C14 and returns one result per call, in a fixed order.
func c14Battery(l klevdb.Log, next int64, keys [][]byte, times []int64) []callRes {
	var out []callRes
	one := func(m Msg, e error) (int64, []Msg, error) {
		if e != nil {
			return 0, nil, e
		}
		return 0, []Msg{m}, nil
	}
	for off := int64(-2); off <= next; off++ {
		for _, mc := range []int64{1, 3, 40} {
			o, c := off, mc
			out = append(out, meter(fmt.Sprintf("Consume(%d,%d)", o, c), func() (int64, []Msg, error) {
				n, km, e := l.Consume(o, c)
				return n, fromKs(km), e
			}))
		}
		if off >= 0 || off == -2 {
			o := off
			out = append(out, meter(fmt.Sprintf("Get(%d)", o), func() (int64, []Msg, error) {
				km, e := l.Get(o)
				return one(fromK(km), e)
			}))
		}
	}
	out = append(out, meter("Get(-1)", func() (int64, []Msg, error) {
		km, e := l.Get(-1)
		return one(fromK(km), e)
	}))
	for _, k := range keys {
		key := k
		out = append(out, meter(fmt.Sprintf("GetByKey(%x)", key), func() (int64, []Msg, error) {
			km, e := l.GetByKey(key)
			return one(fromK(km), e)
		}))
		for _, off := range []int64{-2, 0, next / 2} {
			o := off
			cr := meter(fmt.Sprintf("ConsumeByKey(%x,%d,2)", key, o), func() (int64, []Msg, error) {
				n, km, e := l.ConsumeByKey(key, o, 2)
				return n, fromKs(km), e
			})
			cr.Kind, cr.Key, cr.Off = "ConsumeByKey", key, o
			out = append(out, cr)
		}
	}
	for _, ts := range times {
		t := ts
		out = append(out, meter(fmt.Sprintf("GetByTime(%d)", t), func() (int64, []Msg, error) {
			km, e := l.GetByTime(time.UnixMicro(t))
			return one(fromK(km), e)
		}))
	}
	return out
}

type recLoc struct {
	File     string
	Pos, End int64
}

func (de *dEval) runC14() {
	cfg := &de.plan.Cfg
	// where does every record live?
	loc := map[int64]recLoc{}
	var logs []string
	for _, s := range readSegments(de.r.Dir) {
		_, recs, _, clean, err := refcodec.DecodeLog(s.Log, s.Base)
		if err != nil || !clean {
			de.res.Abort = "pristine log does not decode"
			return
		}
		for _, rc := range recs {
			loc[rc.Off] = recLoc{File: s.LogName, Pos: rc.Pos, End: rc.Pos + rc.Size}
		}
		logs = append(logs, s.LogName)
	}
	if len(logs) < 2 {
		de.res.Abort = "fewer than two segments"
		return
	}
	var total int64
	for _, b := range de.pristine {
		total += int64(len(b))
	}
	allocBound := uint64(16*total + 128<<20)
	m := de.r.M
	times := timeQueries(m)
	if len(times) > 24 {
		var s []int64
		for i := 0; i < 24; i++ {
			s = append(s, times[i*len(times)/24])
		}
		times = s
	}
	keys := append([][]byte(nil), cfg.KeySet...)
	keys = append(keys, []byte("absent"))
	oo := OpenOpts{Rollover: de.r.OOpts.Rollover, NewV: 2}

	// the undamaged answers
	sim.BeginInline(Mix(de.plan.Seed, 3), de.plan.Cfg.StartUS+1000000)
	defer sim.End()
	p0 := de.freshCopy("p")
	l0, err := klevdb.Open(p0, oo.K(cfg))
	if err != nil {
		de.res.Abort = "pristine open: " + err.Error()
		return
	}
	base := c14Battery(l0, m.Next, keys, times)
	_ = l0.Close()
	os.RemoveAll(p0)

	eval := func(f *Fault) {
		heartbeat()
		de.res.Evals++
		de.res.Faults[f.Kind]++
		d := de.freshCopy("d")
		defer os.RemoveAll(d)
		if err := applyFault(d, f); err != nil {
			panic(infraErr{err})
		}
		// damaged byte range and whether the clause "overwritten in place" applies
		lo, hi := f.Pos, f.Pos+1
		if f.Kind == "set" {
			hi = f.Pos + int64(len(f.Data))
		}
		// in-place overwrite; inside the 8-byte file header no record is overwritten (so nothing
		// "must error", and Open may fail when it reads that header), but calls answered
		// entirely from other segment files must still be unchanged
		overwrite := f.Kind == "flip" || f.Kind == "set"
		headerDamage := overwrite && lo < 8
		inPlace := overwrite
		tag := f.Kind
		cls := "other"
		if headerDamage {
			cls = "in-header"
		} else if inPlace {
			cls = "in-record"
		}
		region := ""
		if cls == "in-record" {
			// which field of the V2 record does the damage start in?
			for off, rl := range loc {
				if rl.File == f.File && lo >= rl.Pos && lo < rl.End {
					rel := lo - rl.Pos
					pm := m.Published[off]
					switch {
					case rel < 4:
						region = "crc"
					case rel < 12:
						region = "offset"
					case rel < 20:
						region = "time"
					case rel < 24:
						region = "keylen"
					case rel < 28:
						region = "vallen"
					case rel < 28+int64(len(pm.Key)):
						region = "key"
					case rel < 28+int64(len(pm.Key)+len(pm.Val)):
						region = "value"
					default:
						region = "trailer"
					}
				}
			}
		}
		de.classes[fmt.Sprintf("%s|%s|%s|seg%d", f.Kind, cls, region, indexOf(logs, f.File))] = true
		a0 := allocBytes()
		var l klevdb.Log
		oerr := guard(func() error {
			var e error
			l, e = klevdb.Open(d, oo.K(cfg))
			return e
		})
		if allocBytes()-a0 > allocBound {
			de.report(f, "Open|"+tag+"|allocation", "Open allocated %d bytes, the directory holds %d", allocBytes()-a0, total)
			return
		}
		if oerr != nil {
			if _, ok := oerr.(*panicErr); ok {
				de.report(f, "Open|"+tag+"|panic", "Open panicked: %v", oerr)
			} else if inPlace && !headerDamage {
				de.report(f, "Open|"+tag+"|failed", "Open with default options failed after an in-place overwrite inside a record: %v", oerr)
			}
			return
		}
		defer func() { _ = guard(func() error { return l.Close() }) }()
		got := c14Battery(l, m.Next, keys, times)
		for i, g := range got {
			b := base[i]
			call := callName(g.Name)
			if pe, ok := g.Err.(*panicErr); ok {
				de.report(f, call+"|"+tag+"|panic", "%s panicked: %v", g.Name, pe.v)
				return
			}
			if g.Alloc > allocBound {
				de.report(f, call+"|"+tag+"|allocation", "%s allocated %d bytes, the whole directory holds %d", g.Name, g.Alloc, total)
				return
			}
			// universal: never a message that differs from the published one
			for _, x := range g.Msgs {
				if x.Off < 0 || x.Off >= int64(len(m.Published)) || !sameMsg(x, m.Published[x.Off]) {
					de.report(f, call+"|"+tag+"|wrong-data", "%s returned %v, published at that offset: %s", g.Name, x, pubAt(m, x.Off))
					return
				}
			}
			if !inPlace {
				continue
			}
			// classify by the undamaged answer
			includes, otherFilesOnly := false, true
			for _, x := range b.Msgs {
				rl := loc[x.Off]
				if rl.File == f.File {
					otherFilesOnly = false
					if !headerDamage && rl.Pos < hi && lo < rl.End {
						includes = true
					}
				}
			}
			if b.Kind == "ConsumeByKey" && b.Off >= 0 && !includes {
				// the key cursor has to read the candidates of its first segment that lie
				// below the requested offset to learn their offsets: "may do either"
				either := false
				for off, rl := range loc {
					// with a damaged file header every record of the file is unreadable
					hit := rl.File == f.File && (headerDamage || (rl.Pos < hi && lo < rl.End))
					if hit && off < b.Off && keyEq(m.Published[off].Key, b.Key) {
						either = true
					}
				}
				if either {
					de.res.Probes["either_class"]++
					continue
				}
			}
			switch {
			case b.Err == nil && includes:
				if g.Err == nil {
					de.report(f, call+"|"+tag+"|damaged-record-served", "%s succeeded although its answer includes the overwritten record (bytes %d-%d of %s): returned %v", g.Name, lo, hi, f.File, msgOffs(g.Msgs))
					return
				}
				de.res.Probes["must_error_checked"]++
			case otherFilesOnly:
				if !sameCall(b, g) {
					de.report(f, call+"|"+tag+"|other-segment-affected", "%s is answered entirely from other segment files and changed: before %s, now %s", g.Name, callStr(b), callStr(g))
					return
				}
				de.res.Probes["must_equal_checked"]++
			}
		}
	}

	if f := de.plan.Fault; f != nil {
		eval(f)
		return
	}
	thorough := de.plan.Tier == "thorough"
	var faults []*Fault
	target := logs[de.rng.Intn(len(logs))]
	for _, name := range logs {
		data := de.pristine[name]
		if thorough && name != target {
			continue
		}
		for pos := int64(0); pos < int64(len(data)); pos++ {
			if thorough {
				for bit := 0; bit < 8; bit++ {
					faults = append(faults, &Fault{Kind: "flip", File: name, Pos: pos, Bit: bit})
				}
			} else {
				faults = append(faults, &Fault{Kind: "flip", File: name, Pos: pos, Bit: de.rng.Intn(8)})
			}
			n := 1 + de.rng.Intn(8)
			if thorough {
				for n = 1; n <= 8; n++ {
					faults = append(faults, &Fault{Kind: "set", File: name, Pos: pos, Data: differentBytes(de.rng, data, pos, n)})
				}
			} else {
				faults = append(faults, &Fault{Kind: "set", File: name, Pos: pos, Data: differentBytes(de.rng, data, pos, n)})
			}
			faults = append(faults, &Fault{Kind: "trunc", File: name, Pos: pos})
			if pos >= 8 {
				z := &Fault{Kind: "set", File: name, Pos: pos, Data: make([]byte, int64(len(data))-pos), Mode: "zero-tail"}
				faults = append(faults, z)
			}
		}
	}
	if !thorough && len(faults) > 400 {
		var keep []*Fault
		for len(keep) < 400 {
			j := de.rng.Intn(len(faults))
			keep = append(keep, faults[j])
			faults = append(faults[:j], faults[j+1:]...)
		}
		faults = keep
	}
	// boundary values in the length fields of a few records (always kept): sign bit, sums that
	// wrap a 32-bit addition, the 64 MiB limit and its neighbours, "reaches just past the end"
	{
		var offs []int64
		for off, rl := range loc {
			if !thorough && rl.File != target {
				continue
			}
			offs = append(offs, off)
		}
		sort.Slice(offs, func(i, j int) bool { return offs[i] < offs[j] })
		for n := 0; n < 5 && len(offs) > 0; n++ {
			j := de.rng.Intn(len(offs))
			rl := loc[offs[j]]
			offs = append(offs[:j], offs[j+1:]...)
			rest := uint32(int64(len(de.pristine[rl.File])) - rl.Pos)
			vals := []uint32{0x7fffffff, 0x80000000, 0xffffffff, 0x40000000, 0x7ffffff0, 64 << 20, 64<<20 + 1, 64<<20 - 1, rest, rest + 1}
			be := func(v uint32) []byte { return []byte{byte(v >> 24), byte(v >> 16), byte(v >> 8), byte(v)} }
			cur := de.pristine[rl.File]
			for _, v := range vals {
				// (an overwrite with the bytes that are there already is no damage)
				if !bytes.Equal(cur[rl.Pos+20:rl.Pos+24], be(v)) {
					faults = append(faults, &Fault{Kind: "set", File: rl.File, Pos: rl.Pos + 20, Data: be(v), Mode: "keylen"})
				}
				if !bytes.Equal(cur[rl.Pos+24:rl.Pos+28], be(v)) {
					faults = append(faults, &Fault{Kind: "set", File: rl.File, Pos: rl.Pos + 24, Data: be(v), Mode: "vallen"})
				}
			}
			for _, pr := range [][2]uint32{{0x40000000, 0x40000000}, {0x7fffffff, 1}, {0x7fffffff, 0x7fffffff}, {32 << 20, 32<<20 + 1}} {
				faults = append(faults, &Fault{Kind: "set", File: rl.File, Pos: rl.Pos + 20, Data: append(be(pr[0]), be(pr[1])...), Mode: "keylen+vallen"})
			}
		}
	}
	for _, f := range faults {
		if f.Mode == "zero-tail" {
			// a zero-filled tail is "cut short", not an in-place overwrite of one record: universal clauses only
			f.Kind = "zerotail"
		}
		eval(f)
	}
}

func indexOf(l []string, s string) int {
	for i, x := range l {
		if x == s {
			return i
		}
	}
	return -1
}

// differentBytes returns n bytes that differ from data[pos:pos+n] in every position.
func differentBytes(rng *Rng, data []byte, pos int64, n int) []byte {
	out := make([]byte, 0, n)
	for i := 0; i < n && int(pos)+i < len(data); i++ {
		c := byte(rng.Intn(256))
		if c == data[int(pos)+i] {
			c ^= 0x5A
		}
		out = append(out, c)
	}
	return out
}

func sameCall(a, b callRes) bool {
	if classify(a.Err) != classify(b.Err) {
		return false
	}
	if a.Err != nil {
		return true
	}
	if a.Next != b.Next || len(a.Msgs) != len(b.Msgs) {
		return false
	}
	for i := range a.Msgs {
		if !sameMsg(a.Msgs[i], b.Msgs[i]) {
			return false
		}
	}
	return true
}

func callStr(c callRes) string {
	if c.Err != nil {
		return "error " + c.Err.Error()
	}
	return fmt.Sprintf("next=%d msgs=%v", c.Next, msgOffs(c.Msgs))
}
