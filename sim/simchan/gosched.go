package simchan

import "runtime"

func gosched() { runtime.Gosched() }
