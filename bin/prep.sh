#!/bin/bash
# prep.sh <scratch dir> [race] : build an instrumented copy of the working tree of $VERIF_REPO
# (default /repo) with the simulator and harness inside, into <scratch>/bin/vsim[-race].
# Exit 2 on any failure (never a verdict).
set -u
S="$1"; RACE="${2:-}"
VERIF=$(cd "$(dirname "$0")/.." && pwd)
REPO="${VERIF_REPO:-/repo}"
export GOFLAGS=-mod=mod GOPROXY=off GOSUMDB=off GOTOOLCHAIN=local GONOSUMDB='*' GONOSUMCHECK=1 GOFLAGS="-mod=mod"
GO=go1.26.8
command -v $GO >/dev/null 2>&1 || GO=/opt/veriftools/go1.26.8/bin/go
fail() { echo "INFRA-ERROR: $*" >&2; exit 2; }

mkdir -p "$S/klevdb" "$S/bin" || fail "mkdir scratch"
rsync -a --delete --exclude .git --exclude verifsim "$REPO"/ "$S/klevdb"/ || fail "rsync"

# tools (prebuilt by setup_cmd; rebuilt here when missing or stale)
TOOLS="$VERIF/.cache/bin"
if [ ! -x "$TOOLS/instrument" ] || [ "$VERIF/instr/instrument/main.go" -nt "$TOOLS/instrument" ]; then
  mkdir -p "$TOOLS" && (cd "$VERIF/instr" && $GO build -o "$TOOLS/instrument" ./instrument) || fail "build instrumenter"
fi
MOD=$(sed -n 's/^module[ \t]*//p' "$S/klevdb/go.mod" | head -1)
[ -n "$MOD" ] || fail "module path"
"$TOOLS/instrument" "$S/klevdb" "$MOD" > "$S/instrument.log" 2>&1 || { cat "$S/instrument.log" >&2; fail "instrumentation"; }

mkdir -p "$S/klevdb/verifsim"
cp -r "$VERIF"/sim/* "$S/klevdb/verifsim/" || fail "copy sim"
cp -r "$VERIF"/harness/* "$S/klevdb/verifsim/" || fail "copy harness"
mkdir -p "$S/klevdb/verifsim/porcupine" && cp "$VERIF"/third_party/porcupine/*.go "$S/klevdb/verifsim/porcupine/" || fail "copy porcupine"
if [ "$MOD" != "github.com/klev-dev/klevdb" ]; then
  grep -rl 'github.com/klev-dev/klevdb' "$S/klevdb/verifsim" | xargs sed -i "s#github.com/klev-dev/klevdb#$MOD#g"
fi

cd "$S/klevdb" || fail "cd"
if [ -z "$RACE" ] || [ "$RACE" = "both" ]; then
  $GO build -trimpath -o "$S/bin/vsim" ./verifsim/cmd/vsim > "$S/build.log" 2>&1 || { cat "$S/build.log" >&2; fail "build"; }
fi
if [ "$RACE" = "race" ] || [ "$RACE" = "both" ]; then
  $GO build -race -trimpath -o "$S/bin/vsim-race" ./verifsim/cmd/vsim > "$S/build-race.log" 2>&1 || { cat "$S/build-race.log" >&2; fail "build -race"; }
fi
exit 0
