#!/bin/bash
# determinism.sh [runs-per-property] : proves that a run is a pure function of its seed.
# For every property the first N runs of base seed 11 are executed in three fresh worker
# processes at GOMAXPROCS 1, 4 and 16 (C08/C18 additionally with the -race binary) and the
# per-run digests (operations, results, FS trace shape, scheduler decisions) are compared.
set -u
VERIF=$(cd "$(dirname "$0")/.." && pwd)
N="${1:-30}"
S=$(mktemp -d /dev/shm/vsim.det.XXXXXX); trap 'rm -rf "$S"' EXIT
"$VERIF/bin/prep.sh" "$S" both || exit 2
D=$(( ($(date +%s)+36000)*1000 ))
fail=0
for P in ${DET_PROPS:-C01 C02 C03 C04 C05 C06 C07 C08 C09 C10 C11 C12 C13 C14 C15 C16 C17 C18 C19 C20}; do
  bins="vsim"; case $P in C08|C18) bins="vsim vsim-race";; esac
  for B in $bins; do
    for G in 1 4 16; do
      GOMAXPROCS=$G GORACE="halt_on_error=1" "$S/bin/$B" worker -prop $P -tier quick -seed 11 -start 0 -stride 1 -maxruns $N -deadline $D -scratch "$S/w_${P}_$G" 2>/dev/null \
        | python3 -c "
import sys,json
for l in sys.stdin:
    r=json.loads(l)
    if 'begin' in r and r.get('begin') is not None: continue
    if r.get('hb'): continue   # heartbeat lines are wall-clock driven, not part of a run
    print(r['run'], r['digest'], len(r.get('viols',[])), r.get('abort','')[:40])
" > "$S/d_${P}_${B}_$G.txt"
    done
    if cmp -s "$S/d_${P}_${B}_1.txt" "$S/d_${P}_${B}_4.txt" && cmp -s "$S/d_${P}_${B}_1.txt" "$S/d_${P}_${B}_16.txt"; then
      echo "$P $B: $(wc -l < "$S/d_${P}_${B}_1.txt") runs x GOMAXPROCS 1/4/16 identical ($(sort -u -k2,2 "$S/d_${P}_${B}_1.txt" | wc -l) distinct digests)"
    else
      echo "$P $B: DIGESTS DIFFER"; diff "$S/d_${P}_${B}_1.txt" "$S/d_${P}_${B}_16.txt" | head -5; fail=1
    fi
  done
done
exit $fail
