package harness

import (
	"context"
	"fmt"
	"os"
	"path/filepath"
	"time"

	"github.com/klev-dev/klevdb"
	"github.com/klev-dev/klevdb/verifsim/refcodec"
	"github.com/klev-dev/klevdb/verifsim/sim"
)

// ---- C15: trim helpers ----

func findFor(r *Run, hc *HelperCall) (map[int64]struct{}, error) {
	ctx := context.Background()
	var f map[int64]struct{}
	err := guard(func() error {
		var e error
		switch hc.Kind {
		case "trim_off":
			f, e = klevdb.FindByOffset(ctx, r.L, hc.Bound)
		case "trim_cnt":
			f, e = klevdb.FindByCount(ctx, r.L, int(hc.Bound))
		case "trim_size":
			f, e = klevdb.FindBySize(ctx, r.L, hc.Bound)
		case "trim_age":
			f, e = klevdb.FindByAge(ctx, r.L, time.UnixMicro(hc.Bound))
		}
		return e
	})
	return f, err
}

// isPrefix reports whether offs (sorted) are exactly the first len(offs) live offsets.
func isPrefix(m *Model, offs []int64) bool {
	if len(offs) > len(m.Live) {
		return false
	}
	for i, o := range offs {
		if m.Live[i].Off != o {
			return false
		}
	}
	return true
}

// singleVersion reports whether every log and index file of the directory is in version v.
func singleVersion(dir string, v int, keys, times bool) bool {
	for _, s := range readSegments(dir) {
		if len(s.Log) > 0 {
			if lv, err := refcodec.LogVersion(s.Log, s.Base); err != nil || lv != v {
				return false
			}
		} else if v == refcodec.V2 {
			return false
		}
		if s.HasIdx {
			if len(s.Index) == 0 {
				if v == refcodec.V2 {
					return false
				}
				continue
			}
			iv, _, err := refcodec.DecodeIndex(s.Index, s.Base, times, keys)
			if err != nil || iv != v {
				return false
			}
		}
	}
	return true
}

func hooksC15() Hooks {
	h := Hooks{Strict: []string{"trim_", "Stat"}}
	h.AfterStep = func(r *Run, op *Op) { r.noteState() }
	h.BeforeHelper = func(r *Run, op *Op, hc *HelperCall) {
		delete(r.Ctx, "found")
		switch hc.Kind {
		case "trim_off", "trim_cnt", "trim_size", "trim_age":
		default:
			return
		}
		f, err := findFor(r, hc)
		name := map[string]string{"trim_off": "FindByOffset", "trim_cnt": "FindByCount", "trim_size": "FindBySize", "trim_age": "FindByAge"}[hc.Kind]
		if err != nil {
			r.violate(name+"|error|"+errKind(err)+stateTag(r), "%s(%d) failed on a healthy log: %v", name, hc.Bound, err)
			return
		}
		offs := sortedKeys(f)
		if !isPrefix(r.M, offs) {
			r.violate(name+"|not-a-prefix", "%s(%d) selected %v, the live sequence starts %v", name, hc.Bound, offs, headOffs(r.M, len(offs)+2))
			return
		}
		r.Ctx["found"] = offs
		r.Ctx["single_version"] = singleVersion(r.Dir, newVer(r.OOpts), r.M.Keys, r.M.Times)
		// Find-level bounds
		m := r.M
		switch hc.Kind {
		case "trim_off":
			want := 0
			b := hc.Bound
			if b == klevdb.OffsetNewest {
				b = m.Next
			}
			for _, x := range m.Live {
				if x.Off < b {
					want++
				}
			}
			if hc.Bound == klevdb.OffsetOldest {
				want = 0
			}
			if len(offs) != want {
				r.violate(name+"|bound", "%s(%d) selected %d messages, %d live offsets are below the bound", name, hc.Bound, len(offs), want)
			}
		case "trim_cnt":
			want := len(m.Live) - int(hc.Bound)
			if want < 0 {
				want = 0
			}
			if len(offs) != want {
				r.violate(name+"|bound", "%s(%d) selected %d of %d live messages, want %d", name, hc.Bound, len(offs), len(m.Live), want)
			}
		case "trim_age":
			for _, o := range offs {
				if x, _ := m.Get(o); x.US > hc.Bound {
					r.violate(name+"|newer-selected", "%s(%d) selected %v, newer than the bound", name, hc.Bound, x)
					return
				}
			}
			if m.Monotone && m.Times {
				for _, x := range m.Live[len(offs):] {
					if x.US < hc.Bound {
						r.violate(name+"|older-left"+stateTag(r), "%s(%d) on never-decreasing times leaves %v, older than the bound", name, hc.Bound, x)
						return
					}
				}
				r.probe("age_minimality_checked")
			}
		case "trim_size":
			if sv, _ := r.Ctx["single_version"].(bool); sv {
				total := hc.StatBefore.Size
				for i, o := range offs {
					if total < hc.Bound {
						r.violate(name+"|not-minimal", "%s(%d): the estimate was already below the target (%d) before selecting message %d of %d", name, hc.Bound, total, i+1, len(offs))
						return
					}
					x, _ := m.Get(o)
					total -= storageSize(x, newVer(r.OOpts), m.Keys, m.Times)
				}
				if total >= hc.Bound && len(offs) < len(m.Live) {
					r.violate(name+"|bound", "%s(%d): estimate after the selection is %d, still not below the target, and messages remain", name, hc.Bound, total)
					return
				}
				r.probe("size_estimate_checked")
			}
		}
	}
	h.OnDelete = func(r *Run, kind string, req []int64, before *Model, got []Msg, gotOffs []int64, size int64, err error) {
		switch kind {
		case "trim_off", "trim_cnt", "trim_size", "trim_age":
		default:
			return
		}
		interrupted := interruptedByHarness(err)
		if err != nil && !interrupted {
			return // reported through Strict
		}
		hc, _ := r.Ctx["helper"].(*HelperCall)
		found, ok := r.Ctx["found"].([]int64)
		if hc == nil || !ok {
			return
		}
		if !isPrefix(before, gotOffs) {
			r.violate(kind+"|removed-not-a-prefix", "%s(%d) removed %v, the live sequence started %v", kind, hc.Bound, gotOffs, headOffs(before, len(gotOffs)+2))
			return
		}
		fs := boolSet(found)
		for _, o := range gotOffs {
			if !fs[o] {
				r.violate(kind+"|removed-outside-selection", "%s(%d) removed offset %d, the corresponding Find selected %v", kind, hc.Bound, o, found)
				return
			}
		}
		live, _, diag := r.scan(int64(1 + r.Obs.Intn(9)))
		if diag != "" {
			r.abort("scan after %s: %s", kind, diag)
			return
		}
		if d := diffLive(live, r.M.Live); d != "" {
			r.violate(kind+"|touched-outside-prefix|"+diffKind(d), "%s(%d) reported %v: %s", kind, hc.Bound, gotOffs, d)
			return
		}
		if interrupted {
			// stopped half-way by the harness's backoff: what it reports is all it removed
			// (checked above); the bound is not established
			r.probe("trim_interrupted_checked")
			return
		}
		if hc.Variant == 0 {
			if len(found) > 0 && len(gotOffs) == 0 {
				r.violate(kind+"|no-progress", "%s(%d) removed nothing although %v qualify", kind, hc.Bound, found)
			}
			return
		}
		// Multi variants establish the bound
		if len(gotOffs) != len(found) {
			r.violate(kind+"|incomplete"+stateTag(r), "%s Multi(%d) removed %v, the bound requires %v", kind, hc.Bound, gotOffs, found)
			return
		}
		r.probe("trim_multi_checked")
		m := r.M
		switch kind {
		case "trim_off":
			if hc.Bound >= 0 && len(m.Live) > 0 && m.Live[0].Off < hc.Bound {
				r.violate(kind+"|bound-after", "after TrimByOffsetMulti(%d) offset %d is still live", hc.Bound, m.Live[0].Off)
			}
		case "trim_cnt":
			want := min(len(before.Live), int(hc.Bound))
			if len(m.Live) != want {
				r.violate(kind+"|bound-after", "after TrimByCountMulti(%d) %d messages are left, want %d", hc.Bound, len(m.Live), want)
			}
		case "trim_size":
			if sv, _ := r.Ctx["single_version"].(bool); sv && len(m.Live) > 0 {
				var st klevdb.Stats
				e := guard(func() error {
					var e error
					st, e = r.L.Stat()
					return e
				})
				if e != nil {
					r.violate("Stat|error|"+errKind(e), "Stat after TrimBySizeMulti failed: %v", e)
					return
				}
				if st.Size >= hc.Bound {
					r.violate(kind+"|bound-after", "after TrimBySizeMulti(%d) Stat size is %d and the log is not empty", hc.Bound, st.Size)
				}
				r.probe("size_bound_checked")
			}
		}
	}
	return h
}

func headOffs(m *Model, n int) []int64 {
	var out []int64
	for i := 0; i < n && i < len(m.Live); i++ {
		out = append(out, m.Live[i].Off)
	}
	return out
}

// ---- C16: compaction ----

func latestValues(live []Msg) map[string]string {
	out := map[string]string{}
	for _, x := range live {
		if len(x.Val) == 0 {
			delete(out, string(x.Key))
		} else {
			out[string(x.Key)] = string(x.Val)
		}
	}
	return out
}

func hooksC16() Hooks {
	h := Hooks{Strict: []string{"cmp_", "Compact"}}
	h.AfterStep = func(r *Run, op *Op) { r.noteState() }
	h.OnDelete = func(r *Run, kind string, req []int64, before *Model, got []Msg, gotOffs []int64, size int64, err error) {
		switch kind {
		case "cmp_upd", "cmp_del", "Compact":
		default:
			return
		}
		interrupted := interruptedByHarness(err)
		if err != nil && !interrupted {
			return
		}
		// the log itself must show exactly before − reported
		if kind != "Compact" {
			live, _, diag := r.scan(int64(1 + r.Obs.Intn(9)))
			if diag != "" {
				r.abort("scan after %s: %s", kind, diag)
				return
			}
			if d := diffLive(live, r.M.Live); d != "" {
				r.violate(kind+"|removed-other-than-reported|"+diffKind(d), "%s reported %v: %s", kind, gotOffs, d)
				return
			}
		}
		a, b := latestValues(before.Live), latestValues(r.M.Live)
		for k, v := range a {
			if w, ok := b[k]; !ok || w != v {
				r.violate(kind+"|latest-value-changed", "%s changed the latest value of key %x: %x -> %x (present=%v)", kind, k, short([]byte(v)), short([]byte(w)), ok)
				return
			}
		}
		for k, w := range b {
			if _, ok := a[k]; !ok {
				r.violate(kind+"|key-resurrected", "%s made key %x visible with value %x; it was absent (value-less last message) before", kind, k, short([]byte(w)))
				return
			}
		}
		var cutoff int64
		if hc, _ := r.Ctx["helper"].(*HelperCall); hc != nil && kind != "Compact" {
			cutoff = hc.Bound
		} else {
			age, _ := r.Ctx["compact_age"].(int64)
			cutoff = sim.NowUS() - age
		}
		removed := boolSet(gotOffs)
		for _, o := range gotOffs {
			x, ok := before.Get(o)
			if !ok {
				r.violate(kind+"|removed-not-live", "%s reports offset %d as removed, it was not live", kind, o)
				return
			}
			if x.US > cutoff {
				r.violate(kind+"|removed-newer-than-cutoff", "%s(cut-off %d) removed %v", kind, cutoff, x)
				return
			}
			later, older := false, false
			for _, y := range before.Live {
				if !keyEq(y.Key, x.Key) {
					continue
				}
				if y.Off > x.Off {
					later = true
				}
				if y.Off < x.Off {
					older = true
				}
			}
			switch kind {
			case "cmp_upd":
				if !later {
					r.violate(kind+"|removed-last-of-key", "CompactUpdates(cut-off %d) removed %v, the last live message of its key", cutoff, x)
					return
				}
			case "cmp_del":
				if len(x.Val) != 0 {
					r.violate(kind+"|removed-with-value", "CompactDeletes(cut-off %d) removed %v, which has a value", cutoff, x)
					return
				}
				if older {
					r.violate(kind+"|removed-not-oldest", "CompactDeletes(cut-off %d) removed %v, not the oldest live message of its key", cutoff, x)
					return
				}
			case "Compact":
				if !later && len(x.Val) != 0 {
					r.violate(kind+"|removed-live-value", "Compact removed %v: it has a value and no later message of its key", x)
					return
				}
			}
		}
		hc, _ := r.Ctx["helper"].(*HelperCall)
		if kind == "cmp_upd" && hc != nil && hc.Variant >= 1 && before.Monotone && !interrupted {
			cnt := map[string]int{}
			for _, y := range r.M.Live {
				if y.US <= cutoff {
					cnt[string(y.Key)]++
				}
			}
			for k, n := range cnt {
				if n > 1 {
					r.violate(kind+"|not-compacted", "after CompactUpdatesMulti(cut-off %d) on never-decreasing times %d messages with key %x remain at or before the cut-off", cutoff, n, k)
					return
				}
			}
			r.probe("updates_fully_compacted_checked")
		}
		if len(removed) > 0 {
			r.probe("compaction_removed")
		}
	}
	return h
}

// ---- C17: migration and mixed versions ----

func wantVer(name string) int {
	if name == "migrate1" {
		return refcodec.V1
	}
	return refcodec.V2
}

func checkAllVersion(r *Run, where string, v int) bool {
	for _, s := range segLayout(r.Dir) {
		if s.Ver != 0 && s.Ver != v {
			r.violate("version|"+where+"|segment-not-migrated", "%s: segment %d is %s, requested %s", where, s.Base, verName(s.Ver), verName(v))
			return false
		}
		if s.Ver == 0 && s.Size != 0 {
			r.violate("version|"+where+"|undetectable", "%s: segment %d (%d bytes) has no recognisable version", where, s.Base, s.Size)
			return false
		}
	}
	return true
}

func hooksC17() Hooks {
	h := Hooks{Strict: []string{"Open", "Close", "offline-migrate"}}
	content := func(r *Run, where string) bool {
		live, fin, diag := r.scan(int64(1 + r.Obs.Intn(40)))
		if diag != "" {
			r.violate("content|"+where+"|scan-error|"+scanDiagKind(diag), "%s: %s", where, diag)
			return false
		}
		if d := diffLive(live, r.M.Live); d != "" {
			r.violate("content|"+where+"|"+diffKind(d), "%s: live sequence changed: %s", where, d)
			return false
		}
		if fin != r.M.Next {
			r.violate("content|"+where+"|next", "%s: NextOffset %d, want %d", where, fin, r.M.Next)
			return false
		}
		return true
	}
	h.AfterOpen = func(r *Run) { r.Ctx["layout"] = segLayout(r.Dir) }
	h.Refresh = h.AfterOpen
	h.BeforeClose = func(r *Run) {
		q := r.obsQ(false, false)
		r.Ctx["q"], r.Ctx["obs"] = q, Observe(r.L, q)
	}
	h.AfterTool = func(r *Run, tool string) {
		if tool != "migrate1" && tool != "migrate2" {
			return
		}
		v := wantVer(tool)
		if !checkAllVersion(r, "after-Migrate", v) {
			return
		}
		// migrating twice is the same as once
		snap := snapDir(r.Dir)
		o := klevdb.Options{KeyIndex: r.P.Cfg.Keys, TimeIndex: r.P.Cfg.Times}
		kv := klevdb.V2
		if v == refcodec.V1 {
			kv = klevdb.V1
		}
		if err := guard(func() error { return klevdb.Migrate(r.Dir, o, kv) }); err != nil {
			r.violate("migrate-twice|error", "second Migrate failed: %v", err)
			return
		}
		if d := snap.diff(snapDir(r.Dir)); d != "" {
			r.violate("migrate-twice|changed", "second Migrate to %s changed the directory: %s", verName(v), d)
			return
		}
		r.probe("migrate_checked")
	}
	h.OnReopened = func(r *Run, op *Op) {
		if !content(r, "after-reopen") {
			return
		}
		if q, _ := r.Ctx["q"].(*ObsQ); q != nil {
			obs0, _ := r.Ctx["obs"].(*Obs)
			obs1 := Observe(r.L, q)
			if g, d := DiffObs(obs0, obs1); g != "" {
				r.violate("battery|after-reopen|"+g, "reopen (tools %v, options %+v) changed the answers: %s", op.Tools, *op.Open, d)
				return
			}
		}
		if op.Open.Eager {
			if !checkAllVersion(r, "after-EagerVersionMigrate", newVer(*op.Open)) {
				return
			}
			r.probe("eager_checked")
		}
		mixed := map[int]bool{}
		for _, s := range segLayout(r.Dir) {
			if s.Ver != 0 {
				mixed[s.Ver] = true
			}
		}
		if len(mixed) > 1 {
			r.probe("mixed_versions")
		}
		r.Ctx["layout"] = segLayout(r.Dir)
	}
	h.AfterStep = func(r *Run, op *Op) {
		defer func() {
			if r.L != nil {
				r.Ctx["layout"] = segLayout(r.Dir)
			}
		}()
		if op.K == "reopen" || r.L == nil {
			return
		}
		r.noteState()
		if !content(r, "after-"+op.K) {
			return
		}
		before, _ := r.Ctx["layout"].([]segInfo)
		after := segLayout(r.Dir)
		nv := newVer(r.OOpts)
		had := map[int64]bool{}
		for _, s := range before {
			had[s.Base] = true
		}
		if op.K == "pub" && !r.pubRefused() {
			nextBefore := r.M.Next - int64(len(op.Msgs))
			for _, s := range after {
				if !had[s.Base] && s.Base >= nextBefore && s.Ver != 0 && s.Ver != nv {
					r.violate("version|new-segment", "segment %d created by rollover is %s, NewSegmentsVersion is %s", s.Base, verName(s.Ver), verName(nv))
					return
				}
				if !had[s.Base] && s.Base >= nextBefore && s.Ver != 0 {
					r.probe("new_segment_version_checked")
				}
			}
		}
	}
	h.OnDelete = func(r *Run, kind string, req []int64, before *Model, got []Msg, gotOffs []int64, size int64, err error) {
		if len(gotOffs) == 0 || err != nil {
			return
		}
		pre, _ := r.Ctx["layout"].([]segInfo)
		post := segLayout(r.Dir)
		nv := newVer(r.OOpts)
		touched := map[int64]*segInfo{}
		for _, o := range gotOffs {
			if s := segOf(pre, o); s != nil {
				touched[s.Base] = s
			}
		}
		// a delete that takes the newest message leaves a new, empty head named after NextOffset:
		// a new segment, so in NewSegmentsVersion (V2: the 8-byte file header, V1: an empty file)
		hadPre := map[int64]bool{}
		for _, s := range pre {
			hadPre[s.Base] = true
		}
		for _, s := range post {
			if !hadPre[s.Base] && s.Base == r.M.Next && (s.Size == 0 || s.Size == 8) {
				got := refcodec.V1
				if s.Size == 8 {
					got = refcodec.V2
				}
				if got != nv {
					r.violate("version|new-empty-head", "the empty head segment %d created by %s is %s, NewSegmentsVersion is %s", s.Base, kind, verName(got), verName(nv))
					return
				}
				r.probe("new_empty_head_version_checked")
			}
		}
		for _, ps := range touched {
			hi := int64(1 << 62)
			for _, s := range pre {
				if s.Base > ps.Base && s.Base < hi {
					hi = s.Base
				}
			}
			want := nv
			if r.OOpts.Keep && ps.Ver != 0 {
				want = ps.Ver
			}
			for _, s := range post {
				if s.Base >= ps.Base && s.Base < hi && s.Ver != 0 {
					// survivors of the rewritten segment (a new empty head sits at NextOffset >= hi or is empty)
					if s.Base == r.M.Next && (s.Size == 8 || s.Size == 0) {
						continue
					}
					if s.Ver != want {
						r.violate("version|rewritten-segment|keep="+fmt.Sprint(r.OOpts.Keep), "segment %d (was %s at %d) rewritten by %s is %s, want %s (KeepRewriteVersion=%v, NewSegmentsVersion=%s)", s.Base, verName(ps.Ver), ps.Base, kind, verName(s.Ver), verName(want), r.OOpts.Keep, verName(nv))
						return
					}
					r.probe("rewrite_version_checked")
				}
			}
		}
	}
	return h
}

var _ = os.Remove
var _ = filepath.Join
