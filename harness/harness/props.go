package harness

var commonAssume = []string{
	"seeded search samples histories; a clean batch is evidence, not proof",
	"the instrumented copy (imports of os/sync/sync-atomic/time/crypto-rand re-pointed to shims, channel ops translated to polling helpers) behaves like the shipped code; the repository's own tests pass against it with inactive shims",
	"files are real files on tmpfs; third-party code (flock, art, mmap) runs real and un-instrumented",
}

func init() {
	register(&PropDef{ID: "C01", Engine: "H", Profile: "fidelity", Hooks: hooksC01, Level: "exploration", QuickS: 45, ThorS: 600,
		Rule:      "one evaluation = one seeded history (12-85 API calls incl. reopen with re-drawn options, index loss, offline tools, clock jumps) with a full cursor scan compared to the reference model after every call; distinct_nontrivial counts distinct signatures (index configuration, time regime, rollover, versions, reached layout features: multi-segment / holes / empty head / emptied log / trimmed front, bucketed op mix) of runs that rolled over or deleted something",
		Trigger:   []string{"multi_segment", "deleted_some"},
		Assume:    commonAssume,
		Technique: "deterministic simulation: seeded history search against a reference model (scan = model after every step)"})
	register(&PropDef{ID: "C02", Engine: "H", Profile: "offsets", Hooks: hooksC02, Level: "exploration", QuickS: 40, ThorS: 480,
		Rule:      "one evaluation = one seeded history biased to tail deletes / delete-everything / empty batches / reopen / publish-again chains; after every call Publish/Sync/NextOffset results and the offsets visible in a scan are compared with the model's never-decreasing next offset; distinct_nontrivial counts distinct state signatures of runs in which the tail was deleted, the log emptied or the log reopened",
		Trigger:   []string{"tail_deleted", "log_emptied", "reopen"},
		Assume:    commonAssume,
		Technique: "deterministic simulation: seeded history search, offset bookkeeping oracle"})
	register(&PropDef{ID: "C03", Engine: "H", Profile: "holes", Hooks: hooksC03, Level: "exploration", QuickS: 40, ThorS: 600,
		Rule:      "one evaluation = one seeded history over hole patterns; at sampled steps Consume is called for every offset in [-5, NextOffset+2] x maxCount {1,2,7,40} (thorough: 1..40) and each result is checked against the predicate derived from the model, plus a full cursor walk from OffsetOldest; distinct_nontrivial counts distinct state signatures of runs whose log had holes when checked",
		Trigger:   []string{"holes_checked"},
		Assume:    commonAssume,
		Technique: "deterministic simulation: seeded history search, Consume predicate vs reference model over all offsets"})
	register(&PropDef{ID: "C04", Engine: "H", Profile: "holes", Hooks: hooksC04, Level: "exploration", QuickS: 40, ThorS: 480,
		Rule:      "one evaluation = one seeded history over hole patterns; at every step Get is called for every offset in [0, NextOffset+2] and both relative offsets, classified (message / ErrNotFound / ErrInvalidOffset) against the model and compared with Consume(o,1); distinct_nontrivial counts distinct state signatures of runs that deleted something",
		Trigger:   []string{"deleted_some"},
		Assume:    commonAssume,
		Technique: "deterministic simulation: seeded history search, Get taxonomy vs reference model over all offsets"})
	register(&PropDef{ID: "C09", Engine: "H", Profile: "keys", Hooks: hooksC09, Level: "exploration", QuickS: 40, ThorS: 480,
		Rule:      "one evaluation = one seeded history over a key set with nil, empty and real FNV-1a-64 colliding key pairs; at every step GetByKey/OffsetByKey/ConsumeByKey iteration for every key of the set plus absent keys (incl. never-published collision partners) are compared with the model; distinct_nontrivial counts distinct state signatures of runs that deleted something",
		Trigger:   []string{"deleted_some"},
		Assume:    commonAssume,
		Technique: "deterministic simulation: seeded history search with precomputed hash collisions, key lookups vs reference model"})
	register(&PropDef{ID: "C10", Engine: "H", Profile: "times", Hooks: hooksC10, Level: "exploration", QuickS: 40, ThorS: 480,
		Rule:      "one evaluation = one seeded never-decreasing-time history with runs of equal stamps at small rollover; at every step GetByTime/OffsetByTime for every query time within 2 us of any live or deleted message time (all distinct answers of a 1 us sweep) plus far past/future are compared with the model; distinct_nontrivial counts distinct state signatures of multi-segment runs",
		Trigger:   []string{"multi_segment"},
		Assume:    commonAssume,
		Technique: "deterministic simulation: seeded history search, time lookups vs reference model at every distinguishing query time"})
	register(&PropDef{ID: "C12", Engine: "H", Profile: "deletes", Hooks: hooksC12, Level: "exploration", QuickS: 40, ThorS: 480,
		Rule:      "one evaluation = one seeded history with Delete/DeleteMulti over offset sets of every kind (live, dead, unassigned, relative, mixed, spanning segments, whole head, tail, everything); each call is checked: returned subset of requested-and-live with original content, exact storage size by the reference codec, scan afterwards = before minus returned, progress, repeat deletes nothing; distinct_nontrivial counts distinct state signatures of runs in which a delete removed something",
		Trigger:   []string{"delete_checked"},
		Assume:    commonAssume,
		Technique: "deterministic simulation: seeded history search, per-call delete contract vs reference model and reference codec sizes"})
}
