package main

import (
	"fmt"
	"os"

	"github.com/klev-dev/klevdb"
	"github.com/klev-dev/klevdb/verifsim/sim"
)

func main() {
	dir, _ := os.MkdirTemp("/dev/shm", "t")
	defer os.RemoveAll(dir)
	sim.BeginInline(1, 1700000000000000)
	sim.FS = sim.NewFSTrace()
	l, err := klevdb.Open(dir, klevdb.Options{KeyIndex: true, TimeIndex: true, Rollover: 100})
	if err != nil {
		panic(err)
	}
	for i := 0; i < 5; i++ {
		n, err := l.Publish([]klevdb.Message{{Key: []byte("k"), Value: []byte("vvvvvvvvvvvvvvvvvvvvvvvvvvvvvvvvvvvvvvvvvvvvvvvvvvvvvvvvvvvvvvvvvvvv")}})
		fmt.Println(n, err)
	}
	fmt.Println(l.Delete(map[int64]struct{}{0: {}}))
	fmt.Println(l.Close())
	for _, e := range sim.FS.Events {
		fmt.Printf("%d fd=%d %s %s len=%d created=%v\n", e.Kind, e.Fd, e.Path, e.Path2, len(e.Data), e.Created)
	}
	fmt.Println(sim.S.Steps())
	sim.End()
}
