#!/bin/bash
# Run once after a fresh restore, offline: builds the tools and warms the Go build cache so
# that the per-check rebuilds take seconds.
set -u
cd "$(dirname "$0")/.."
export GOFLAGS=-mod=mod GOPROXY=off GOSUMDB=off GOTOOLCHAIN=local
GO=go1.26.8; command -v $GO >/dev/null 2>&1 || GO=/opt/veriftools/go1.26.8/bin/go
mkdir -p .cache/bin out evidence
(cd instr && $GO build -o ../.cache/bin/instrument ./instrument && $GO build -o ../.cache/bin/genshim ./genshim) || exit 2
S=$(mktemp -d /dev/shm/vsim.setup.XXXXXX 2>/dev/null || mktemp -d)
trap 'rm -rf "$S"' EXIT
bin/prep.sh "$S" both || exit 2
echo "setup ok"
