package harness

import (
	"fmt"
	"github.com/klev-dev/klevdb/verifsim/refcodec"
	"os"
	"path/filepath"
	"strings"
	"time"

	"github.com/klev-dev/klevdb"
)

// ---- C20: a backup opens to the same log ----

func genPlanC20(def *PropDef, tier string, seed uint64, run int64) *Plan {
	rng := NewRng(seed)
	p := profiles["backup"]
	cfg, g := genRunCfg(rng, p)
	plan := &Plan{Prop: def.ID, Engine: "H", Tier: tier, Seed: seed, Run: run, Cfg: *cfg}
	n := rng.Range(p.minOps, p.maxOps)
	for i, w := 0, rng.Range(1, 3); i < w; i++ {
		plan.Ops = append(plan.Ops, g.genPub())
	}
	for len(plan.Ops) < n {
		switch rng.Pick(28, 22, 50) {
		case 0:
			// a backup followed by publish-only steps and repeated backups into the same target
			tgt := int64(rng.Intn(2))
			plan.Ops = append(plan.Ops, Op{K: "backup", A: int64(rng.Pick(40, 40, 20)), B: tgt, C: int64(rng.Intn(4))})
			for i, k := 0, rng.Range(1, 4); i < k; i++ {
				for j, m := 0, rng.Range(1, 3); j < m; j++ {
					switch rng.Pick(80, 8, 6, 6) {
					case 0:
						plan.Ops = append(plan.Ops, g.genPub())
					case 1:
						plan.Ops = append(plan.Ops, Op{K: "sync"})
					case 2:
						plan.Ops = append(plan.Ops, Op{K: "gc", A: 0})
					default:
						plan.Ops = append(plan.Ops, Op{K: "clock", A: rng.I64(0, 5000000)})
					}
				}
				plan.Ops = append(plan.Ops, Op{K: "backup", A: int64(rng.Pick(40, 40, 20)), B: tgt, C: int64(rng.Intn(4))})
			}
		case 1:
			plan.Ops = append(plan.Ops, Op{K: "backup", A: int64(rng.Pick(40, 40, 20)), B: int64(rng.Intn(2)), C: int64(rng.Intn(4))})
		default:
			plan.Ops = append(plan.Ops, g.genOp())
		}
	}
	return plan
}

func hooksC20() Hooks {
	h := Hooks{Strict: []string{"Backup"}}
	// appendOnly[t] is true while target t has only seen appends to the source since the last backup into it
	markDirty := func(r *Run) {
		for k := range r.Ctx {
			if strings.HasPrefix(k, "clean:") {
				r.Ctx[k] = false
			}
		}
	}
	h.AfterStep = func(r *Run, op *Op) {
		switch op.K {
		case "pub", "sync", "gc", "clock", "backup":
		default:
			markDirty(r)
		}
		r.noteState()
	}
	// a reopen that is left unobserved may still have changed the files (offline tools, eager
	// migration): the targets are no longer "only appended to" either
	h.Refresh = func(r *Run) { markDirty(r) }
	h.OnOp = func(r *Run, op *Op) bool {
		if op.K != "backup" {
			return false
		}
		if r.L == nil {
			return true
		}
		if op.A == 2 {
			// Log.Backup through a read-only handle, as that handle's first call: the writer is
			// closed, index files may get lost meanwhile (C bit 0: the newest, bit 1: all), and
			// the writer comes back afterwards
			wo := r.OOpts
			if err := guard(func() error { return r.L.Close() }); err != nil {
				r.L = nil
				r.unexpected("Close", err)
				return true
			}
			r.L = nil
			if files := indexFiles(r.Dir); len(files) > 0 {
				switch {
				case op.C&2 != 0:
					for _, f := range files {
						_ = os.Remove(f)
					}
				case op.C&1 != 0:
					_ = os.Remove(files[len(files)-1])
				}
			}
			ro := wo
			ro.Readonly, ro.Check, ro.Recover, ro.Eager = true, false, false, false
			if err := r.open(ro); err != nil {
				r.unexpected("Open(read-only)", err)
				return true
			}
			r.probe("backup_via_readonly_handle")
			defer func() {
				l := r.L
				r.L = nil
				if l != nil {
					_ = guard(func() error { return l.Close() })
				}
				if r.stopped() {
					return
				}
				wo.Check, wo.Recover, wo.Eager = false, false, false
				if err := r.open(wo); err != nil {
					r.unexpected("Open(reopen)", err)
				}
			}()
		}
		key := fmt.Sprintf("clean:%d", op.B)
		gen, _ := r.Ctx[fmt.Sprintf("gen:%d", op.B)].(int)
		tgt := filepath.Join(r.Base, fmt.Sprintf("backup%d_%d", op.B, gen))
		if clean, ok := r.Ctx[key].(bool); ok && !clean {
			// the source was not only appended to: continue with an empty target, either a new
			// directory or the same path emptied and recreated (rotating backups)
			if r.Obs.Bool() {
				if err := os.RemoveAll(tgt); err != nil {
					panic(infraErr{err})
				}
				delete(r.Ctx, "used:"+tgt)
				r.probe("backup_target_path_reused_after_wipe")
			} else {
				gen++
				r.Ctx[fmt.Sprintf("gen:%d", op.B)] = gen
				tgt = filepath.Join(r.Base, fmt.Sprintf("backup%d_%d", op.B, gen))
			}
		} else if ok && r.Obs.Chance(15) {
			// also without a reason: an emptied target is an empty directory
			if err := os.RemoveAll(tgt); err != nil {
				panic(infraErr{err})
			}
			delete(r.Ctx, "used:"+tgt)
			r.probe("backup_target_path_reused_after_wipe")
		}
		_, existed := r.Ctx["used:"+tgt]
		r.Ctx["used:"+tgt] = true
		r.Ctx[key] = true
		if existed {
			r.probe("backup_repeated")
		} else {
			r.probe("backup_fresh")
		}
		// Stat sizes are compared through the files themselves (below): opening the target may
		// legitimately re-encode a header-only index in the version of the current options
		q := r.obsQ(true, false)
		if op.A == 1 && len(indexFiles(r.Dir)) < len(segmentBases(r.Dir)) {
			// the package-level Backup works on the files alone and cannot rebuild a lost index
			// file; no property speaks about that case: have the indexes rebuilt first
			_ = Observe(r.L, q)
			r.probe("offline_backup_after_index_rebuild")
		}
		if existed {
			// Backup skips a file whose size and modification time equal the target's. File times
			// come from the real clock: behind a seam here - before a repeated backup every source
			// file with a counterpart in the target gets either the counterpart's time (a clock too
			// coarse to tell the writes apart) or a later one, as the plan's random source decides
			c20SetTimes(r.Dir, tgt, r.Obs.Bool())
			r.probe("backup_repeated_file_times_set")
		}
		src0 := snapDir(r.Dir)
		var err error
		if op.A == 0 || op.A == 2 {
			if !existed {
				if e := os.MkdirAll(tgt, 0o700); e != nil {
					panic(infraErr{e})
				}
			}
			err = guard(func() error { return r.L.Backup(tgt) })
		} else {
			err = guard(func() error { return klevdb.Backup(r.Dir, tgt) })
		}
		r.logf("backup via=%d target=%d gen=%d repeated=%v err=%v", op.A, op.B, gen, existed, errStr(err))
		if err != nil {
			r.unexpected("Backup", err)
			return true
		}
		// the source is observed after the backup (reads change nothing): the backup is then
		// also the first access to segments whose index file was lost
		want := Observe(r.L, q)
		src1 := snapDir(r.Dir)
		if d := sourceChanged(src0, src1, r.M.Times, r.M.Keys); d != "" {
			r.violate("source-changed", "Backup changed the source directory: %s", d)
			return true
		}
		src0 = src1 // an index file that was lost may have been rebuilt (derived data); the target must match the source as it is now
		o := klevdb.Options{KeyIndex: r.P.Cfg.Keys, TimeIndex: r.P.Cfg.Times}
		if e := guard(func() error { return klevdb.Check(tgt, o) }); e != nil && (!r.M.Times || r.M.Monotone) {
			r.violate("check-target|"+errKind(e)+repTag(existed), "Check of the backup failed: %v", e)
			return true
		}
		// files of the target: the log files of the source, byte for byte; index files are
		// derived data (C11): one that is there must be the source's or the index its log
		// file implies, one that is not there will be rebuilt
		if d := backupFilesDiff(src0, snapDir(tgt), r.M.Times, r.M.Keys, r.M.Monotone); d != "" {
			r.violate("target-files"+repTag(existed), "backup directory differs from the source: %s", d)
			return true
		}
		oo := r.OOpts
		oo.Readonly, oo.Check, oo.Recover, oo.Eager = true, false, false, false
		var bl klevdb.Log
		if e := guard(func() error {
			var e error
			bl, e = klevdb.Open(tgt, oo.K(&r.P.Cfg))
			return e
		}); e != nil {
			r.violate("open-target|"+errKind(e)+repTag(existed), "opening the backup failed: %v", e)
			return true
		}
		got := Observe(bl, q)
		_ = guard(func() error { return bl.Close() })
		if g, d := DiffObs(want, got); g != "" {
			r.violate("target-differs|"+g+repTag(existed), "the backup answers differently from the source at the time of the call: %s", d)
			return true
		}
		if len(segmentBases(r.Dir)) > 1 {
			r.probe("backup_multi_segment")
		}
		return true
	}
	return h
}

// sourceChanged compares the source before and after a backup: every file that existed must
// be byte-identical; the only thing that may appear is the index file of a segment whose
// index had been lost (it is derived data and gets rebuilt when the backup needs it).
func sourceChanged(before, after dirSnap, times, keys bool) string {
	for n, b := range before {
		a, ok := after[n]
		if !ok {
			return fmt.Sprintf("file %s disappeared", n)
		}
		if string(a) != string(b) {
			if strings.HasSuffix(n, ".index") {
				// derived data: the same items in the other index format are the same index (a
				// handle may write a header-only index anew in the format of its options)
				var base int64
				fmt.Sscanf(n, "%d", &base)
				_, ib, eb := refcodec.DecodeIndex(b, base, times, keys)
				_, ia, ea := refcodec.DecodeIndex(a, base, times, keys)
				if eb == nil && ea == nil && itemsDiff(ia, ib, true) == "" {
					continue
				}
			}
			return fmt.Sprintf("file %s changed (%d -> %d bytes)", n, len(b), len(a))
		}
	}
	for n := range after {
		if _, ok := before[n]; !ok && !strings.HasSuffix(n, ".index") {
			return fmt.Sprintf("file %s appeared", n)
		}
	}
	return ""
}

func backupFilesDiff(src, tgt dirSnap, times, keys, mono bool) string {
	logsOnly := func(s dirSnap) dirSnap {
		out := dirSnap{}
		for n, b := range s {
			if strings.HasSuffix(n, ".log") {
				out[n] = b
			}
		}
		return out
	}
	if d := logsOnly(src).diff(logsOnly(tgt)); d != "" {
		return d
	}
	for n, ib := range tgt {
		if !strings.HasSuffix(n, ".index") {
			continue
		}
		if sb, ok := src[n]; ok && string(sb) == string(ib) {
			continue
		}
		lb, ok := tgt[strings.TrimSuffix(n, ".index")+".log"]
		if !ok {
			return fmt.Sprintf("index file %s without a log file", n)
		}
		var base int64
		fmt.Sscanf(n, "%d", &base)
		_, recs, _, clean, err := refcodec.DecodeLog(lb, base)
		if err != nil || !clean {
			return fmt.Sprintf("log file of %s does not decode cleanly (%v)", n, err)
		}
		_, items, err := refcodec.DecodeIndex(ib, base, times, keys)
		if err != nil {
			return fmt.Sprintf("index file %s: %v", n, err)
		}
		if d := itemsDiff(items, refcodec.DeriveIndex(recs, times, keys), times && mono); d != "" {
			return fmt.Sprintf("index file %s is neither the source's nor the one its log implies: %s", n, d)
		}
	}
	return ""
}

func repTag(rep bool) string {
	if rep {
		return "|repeated"
	}
	return "|fresh"
}

func segOnly(s dirSnap) dirSnap {
	out := dirSnap{}
	for n, b := range s {
		if strings.HasSuffix(n, ".log") || strings.HasSuffix(n, ".index") {
			out[n] = b
		}
	}
	return out
}

// ---- C19: one writer at a time; read-only handles never modify data ----

func genPlanC19(def *PropDef, tier string, seed uint64, run int64) *Plan {
	rng := NewRng(seed)
	p := profiles["lock"]
	cfg, g := genRunCfg(rng, p)
	plan := &Plan{Prop: def.ID, Engine: "H", Tier: tier, Seed: seed, Run: run, Cfg: *cfg}
	add := func(op Op) { plan.Ops = append(plan.Ops, op) }
	sessions := rng.Range(2, 5)
	for s := 0; s < sessions; s++ {
		if rng.Chance(12) {
			add(Op{K: "ro_fresh", A: int64(rng.Pick(40, 60))})
		}
		// writer session (the log is open read-write at this point)
		for i, n := 0, rng.Range(0, 5); i < n; i++ {
			switch rng.Pick(60, 20, 20) {
			case 0:
				add(g.genPub())
			case 1:
				add(Op{K: "del", Sel: g.genSel()})
			default:
				add(Op{K: "try_open", A: int64(rng.Intn(2))})
			}
		}
		add(Op{K: "w_close"})
		if rng.Chance(25) {
			add(Op{K: "ro_damage_probe", A: int64(rng.Intn(3)), B: int64(rng.Intn(4))})
		}
		if rng.Chance(35) {
			add(Op{K: "fail_open", A: int64(rng.Intn(2)), B: int64(rng.Range(1, 4)), C: int64(rng.Pick(20, 50, 10, 20))})
		}
		if rng.Chance(35) {
			if rng.Chance(40) {
				add(Op{K: "rmidx", RmIdx: []int64{-1}})
			} else {
				add(Op{K: "rmidx", RmIdx: []int64{int64(rng.Intn(1000))}})
			}
		}
		// reader session
		nro := rng.Range(1, 3)
		open := 0
		for i, n := 0, rng.Range(2, 8); i < n; i++ {
			switch rng.Pick(30, 30, 20, 10, 10) {
			case 0:
				if open < nro {
					add(Op{K: "ro_open", H: open})
					open++
				} else {
					add(Op{K: "ro_check", H: rng.Intn(nro), A: int64(rng.Pick(60, 40))})
				}
			case 1:
				add(Op{K: "ro_check", H: rng.Intn(nro), A: int64(rng.Pick(60, 40))})
			case 2:
				add(Op{K: "try_open", A: int64(rng.Intn(2))})
			case 3:
				add(Op{K: "ro_close", H: rng.Intn(nro)})
			default:
				add(Op{K: "fail_open", A: 1, B: 1})
			}
		}
		add(Op{K: "ro_close_all"})
		o := g.genOpenOpts(false)
		o.Recover, o.Check, o.Eager = false, false, false
		add(Op{K: "w_open", Open: &o})
	}
	return plan
}

type c19State struct {
	ro      map[int]klevdb.Log
	before  dirSnap // *.log bytes when the first read-only handle of a session was opened
	q       *ObsQ
	wantObs *Obs
}

func lockErr(err error) bool {
	return err != nil && (strings.Contains(err.Error(), "locked") || strings.Contains(err.Error(), "lock"))
}

func logsOnly(s dirSnap) dirSnap {
	out := dirSnap{}
	for n, b := range s {
		if strings.HasSuffix(n, ".log") {
			out[n] = b
		}
	}
	return out
}

func hooksC19() Hooks {
	h := Hooks{Strict: []string{"Open", "Close"}}
	st := func(r *Run) *c19State {
		s, _ := r.Ctx["c19"].(*c19State)
		if s == nil {
			s = &c19State{ro: map[int]klevdb.Log{}}
			r.Ctx["c19"] = s
		}
		return s
	}
	roOpts := func(r *Run) klevdb.Options {
		o := r.OOpts
		o.Readonly, o.Check, o.Recover, o.Eager = true, false, false, false
		return o.K(&r.P.Cfg)
	}
	h.AfterStep = func(r *Run, op *Op) {
		if r.L != nil {
			r.noteState()
		}
	}
	h.OnOp = func(r *Run, op *Op) bool {
		s := st(r)
		switch op.K {
		case "w_close":
			if r.L == nil {
				return true
			}
			s.q = r.obsQ(true, false)
			s.wantObs = Observe(r.L, s.q)
			if g, d := CheckObsAgainstModel(s.wantObs, r.M); g != "" {
				r.abort("writer observation differs from the model: %s", d)
				return true
			}
			err := guard(func() error { return r.L.Close() })
			r.L = nil
			if err != nil {
				r.unexpected("Close", err)
			}
			r.logf("w_close")
		case "w_open":
			if r.L != nil {
				return true
			}
			for _, l := range s.ro {
				_ = guard(func() error { return l.Close() })
			}
			s.ro = map[int]klevdb.Log{}
			if err := r.open(*op.Open); err != nil {
				r.violate("Open(rw)|after-all-closed|"+errKind(err), "read-write Open with no other handle open failed: %v", err)
				return true
			}
			r.logf("w_open %+v", *op.Open)
			r.probe("writer_reopened")
		case "ro_open":
			if r.L != nil || s.ro[op.H] != nil {
				return true
			}
			if len(s.ro) == 0 {
				s.before = logsOnly(snapDir(r.Dir))
			}
			var l klevdb.Log
			err := guard(func() error {
				var e error
				l, e = klevdb.Open(r.Dir, roOpts(r))
				return e
			})
			if err != nil {
				r.violate("Open(ro)|no-writer|"+errKind(err), "read-only Open with %d other read-only handles and no writer failed: %v", len(s.ro), err)
				return true
			}
			s.ro[op.H] = l
			r.logf("ro_open %d (now %d)", op.H, len(s.ro))
			if len(s.ro) >= 2 {
				r.probe("two_readers")
			}
		case "ro_close":
			l := s.ro[op.H]
			if l == nil {
				return true
			}
			delete(s.ro, op.H)
			if err := guard(func() error { return l.Close() }); err != nil {
				r.unexpected("Close(ro)", err)
				return true
			}
			r.logf("ro_close %d", op.H)
			if len(s.ro) == 0 {
				c19LogsUnchanged(r, s)
			}
		case "ro_close_all":
			for hn, l := range s.ro {
				if err := guard(func() error { return l.Close() }); err != nil {
					r.unexpected("Close(ro)", err)
					return true
				}
				delete(s.ro, hn)
			}
			r.logf("ro_close_all")
			c19LogsUnchanged(r, s)
		case "try_open":
			// an Open that the lock state decides
			ro := op.A == 1
			allowed := r.L == nil && (ro || len(s.ro) == 0)
			o := r.OOpts
			o.Readonly, o.Check, o.Recover, o.Eager = ro, false, false, false
			var snap dirSnap
			if !ro && allowed {
				return true // would start a writer session; w_open does that
			}
			snap = logsOnly(snapDir(r.Dir))
			var l klevdb.Log
			err := guard(func() error {
				var e error
				l, e = klevdb.Open(r.Dir, o.K(&r.P.Cfg))
				return e
			})
			state := fmt.Sprintf("writer=%v,readers=%d", r.L != nil, len(s.ro))
			r.logf("try_open ro=%v state=%s err=%v", ro, state, errStr(err))
			mode := map[bool]string{false: "rw", true: "ro"}[ro]
			if allowed {
				if err != nil {
					r.violate("Open("+mode+")|allowed|"+errKind(err), "Open(%s) with %s failed: %v", mode, state, err)
					return true
				}
				_ = guard(func() error { return l.Close() })
				return true
			}
			if err == nil {
				_ = guard(func() error { return l.Close() })
				r.violate("Open("+mode+")|conflict|succeeded|writer="+fmt.Sprint(r.L != nil), "Open(%s) succeeded with %s", mode, state)
				return true
			}
			r.probe("open_conflict")
			if d := snap.diff(logsOnly(snapDir(r.Dir))); d != "" {
				r.violate("Open("+mode+")|conflict|modified", "a refused Open changed a log file: %s", d)
			}
		case "ro_fresh":
			// a read-only handle on a directory that holds no segment at all
			dir := filepath.Join(r.Base, fmt.Sprintf("fresh%d", r.Step))
			o := r.OOpts
			o.Readonly, o.Check, o.Recover, o.Eager = true, false, false, false
			var l klevdb.Log
			if err := guard(func() error {
				var e error
				l, e = klevdb.Open(dir, o.K(&r.P.Cfg))
				return e
			}); err != nil {
				r.violate("Open(ro)|fresh-directory|"+errKind(err), "read-only Open of a fresh directory failed: %v", err)
				return true
			}
			empty := NewModel(r.P.Cfg.Keys, r.P.Cfg.Times)
			vr := &Run{P: r.P, Prop: r.Prop, Base: r.Base, Dir: dir, M: empty, L: l, Probes: r.Probes, Feat: r.Feat, Obs: r.Obs, Ctx: map[string]any{}}
			q := vr.obsQ(true, false)
			for round := 0; round < 2; round++ {
				got := Observe(l, q)
				if g, d := CheckObsAgainstModel(got, empty); g != "" {
					r.violate("ro-fresh|battery-vs-model|"+g+fmt.Sprintf("|after-gc=%v", round == 1), "read-only handle on a directory without segments (after GC: %v): %s", round == 1, d)
					break
				}
				if st := got.G["stat"]; len(st) == 1 && !strings.HasPrefix(st[0], "Stat=messages:0 ") {
					r.violate("ro-fresh|stat"+fmt.Sprintf("|after-gc=%v", round == 1), "read-only handle on a directory without segments: %s", st[0])
					break
				}
				if op.A == 1 && round == 0 {
					if err := guard(func() error { return l.GC(0) }); err != nil {
						r.violate("ro-fresh|GC|error", "GC failed: %v", err)
						break
					}
				} else if round == 0 {
					break
				}
			}
			// the lock rules hold on such a directory too: a second read-only handle is let in, a
			// read-write Open is refused as long as either of them is open, and let in afterwards
			tryRW := func(when string, want bool) bool {
				wo := r.OOpts
				wo.Readonly, wo.Check, wo.Recover, wo.Eager = false, false, false, false
				var wl klevdb.Log
				err := guard(func() error {
					var e error
					wl, e = klevdb.Open(dir, wo.K(&r.P.Cfg))
					return e
				})
				if err == nil {
					_ = guard(func() error { return wl.Close() })
				}
				if (err == nil) != want {
					r.violate("ro-fresh|lock|"+when, "directory without segments, %s: read-write Open returned %v", when, err)
					return false
				}
				return true
			}
			var l2 klevdb.Log
			if err := guard(func() error {
				var e error
				l2, e = klevdb.Open(dir, o.K(&r.P.Cfg))
				return e
			}); err != nil {
				r.violate("ro-fresh|second-reader|"+errKind(err), "second read-only Open of a directory without segments failed: %v", err)
				_ = guard(func() error { return l.Close() })
				return true
			}
			ok := tryRW("two read-only handles open", false)
			_ = guard(func() error { return l.Close() })
			ok = ok && tryRW("one of two read-only handles closed", false)
			_ = guard(func() error { return l2.Close() })
			if ok {
				tryRW("both read-only handles closed", true)
			}
			r.probe("ro_fresh_directory")
		case "ro_damage_probe":
			c19DamageProbe(r, s, op)
		case "fail_open":
			c19FailOpen(r, s, op)
		case "rmidx":
			if r.L != nil || len(s.ro) > 0 {
				return true
			}
			files := indexFiles(r.Dir)
			for _, p := range op.RmIdx {
				if p < 0 {
					for _, f := range files {
						_ = os.Remove(f)
					}
				} else if i := pickPermille(len(files), p); i >= 0 {
					_ = os.Remove(files[i])
				}
			}
			r.probe("index_removed")
		case "ro_check":
			l := s.ro[op.H]
			if l == nil {
				return true
			}
			if _, err := l.Publish([]klevdb.Message{{Key: []byte("x"), Value: []byte("y")}}); classify(err) != EReadonly {
				r.violate("ro|Publish|got="+resKind(err), "Publish on a read-only handle: want ErrReadonly, got %v", err)
				return true
			}
			offs := map[int64]struct{}{0: {}}
			if len(r.M.Live) > 0 {
				offs = map[int64]struct{}{r.M.Live[0].Off: {}}
			}
			if _, _, err := l.Delete(offs); classify(err) != EReadonly {
				r.violate("ro|Delete|got="+resKind(err), "Delete on a read-only handle: want ErrReadonly, got %v", err)
				return true
			}
			if s.q == nil {
				return true
			}
			if op.A == 1 {
				// releasing unused resources must not change any answer
				if err := guard(func() error { return l.GC(0) }); err != nil {
					r.violate("ro|GC|error", "GC on a read-only handle failed: %v", err)
					return true
				}
				r.probe("ro_gc")
			}
			got := Observe(l, s.q)
			if g, d := CheckObsAgainstModel(got, r.M); g != "" {
				r.violate("ro|battery-vs-model|"+g, "read-only handle (segments=%d): %s", len(segmentBases(r.Dir)), d)
				return true
			}
			if g, d := DiffObs(s.wantObs, got); g != "" {
				r.violate("ro|battery-vs-writer|"+g+"|"+callName(strings.Trim(strings.SplitN(d, " vs ", 2)[0], "\"")), "read-only handle answers differently from the read-write handle on the same files: %s", d)
				return true
			}
			r.probe("ro_battery")
			switch n := len(segmentBases(r.Dir)); {
			case len(r.M.Live) == 0:
				r.probe("ro_empty_log")
			case n == 1:
				r.probe("ro_single_segment")
			default:
				r.probe("ro_multi_segment")
			}
		default:
			return false
		}
		return true
	}
	h.AfterClose = func(r *Run) {
		// final close of the run: release read-only handles
		if s, _ := r.Ctx["c19"].(*c19State); s != nil {
			for _, l := range s.ro {
				_ = guard(func() error { return l.Close() })
			}
		}
	}
	return h
}

func c19LogsUnchanged(r *Run, s *c19State) {
	if s.before == nil {
		return
	}
	if d := s.before.diff(logsOnly(snapDir(r.Dir))); d != "" {
		r.violate("ro|log-file-changed", "a read-only session changed a log file: %s", d)
	}
	s.before = nil
	r.probe("ro_session_bytes_checked")
}

// c19FailOpen performs an Open that is expected to fail for a reason other than the lock and
// then verifies that the lock state is unchanged: an Open the lock state allows must still
// succeed, one it forbids must still fail.
//
//	op.A: mode of the failing open (0 rw, 1 ro); op.B: 1 missing directory, 2 index header
//	with wrong flags, 3 unaligned index, 4 a file in the directory whose name ends in .log
//	without being an offset (the listing of the segments fails before anything is opened)
func c19FailOpen(r *Run, s *c19State, op *Op) {
	ro := op.A == 1
	o := r.OOpts
	// Check makes a read-only Open look at the head's index too (it is lazy otherwise)
	o.Readonly, o.Check, o.Recover, o.Eager = ro, op.C&1 == 1, false, false
	opts := o.K(&r.P.Cfg)
	blocking := op.C&2 == 2
	kind := op.B
	writerOpen := r.L != nil
	if kind != 1 && (writerOpen || len(s.ro) > 0) {
		kind = 1 // damage is only planted while nothing is open
	}
	switch kind {
	case 1:
		opts.CreateDirs = false
		missing := filepath.Join(r.Base, "no-such-dir", "log")
		var l klevdb.Log
		err := guard(func() error {
			var e error
			l, e = klevdb.Open(missing, opts)
			return e
		})
		if err == nil {
			_ = guard(func() error { return l.Close() })
			r.violate("Open|missing-dir|succeeded", "Open of a missing directory without CreateDirs succeeded")
			return
		}
		if _, ok := err.(*panicErr); ok {
			r.violate("Open|missing-dir|panic", "Open of a missing directory panicked: %v", err)
			return
		}
		r.probe("open_failed_missing_dir")
	default:
		if kind == 4 {
			c19FailOpenStray(r, ro, blocking, opts)
			return
		}
		files := indexFiles(r.Dir)
		if len(files) == 0 {
			return
		}
		f := files[len(files)-1] // the head's index is read by every kind of Open
		orig, err := os.ReadFile(f)
		if err != nil || len(orig) < 9 {
			return
		}
		dam := append([]byte(nil), orig...)
		if kind == 2 {
			if dam[0] != 0xFF {
				return // V1 index: no header to damage
			}
			dam[7] ^= 3
		} else {
			dam = dam[:len(dam)-3]
		}
		if err := os.WriteFile(f, dam, 0o600); err != nil {
			panic(infraErr{err})
		}
		var l klevdb.Log
		err = guard(func() error {
			var e error
			if blocking {
				var bl klevdb.BlockingLog
				if r.P.Cfg.Typed {
					bl, e = openBlockingTyped(r.Dir, opts)
				} else {
					bl, e = klevdb.OpenBlocking(r.Dir, opts)
				}
				if e == nil {
					l = bl
				}
				return e
			}
			l, e = klevdb.Open(r.Dir, opts)
			return e
		})
		if werr := os.WriteFile(f, orig, 0o600); werr != nil {
			panic(infraErr{werr})
		}
		r.logf("fail_open kind=%d ro=%v err=%v", kind, ro, errStr(err))
		if err == nil {
			// not every damage makes Open fail (lazy readers); nothing to conclude about the lock
			_ = guard(func() error { return l.Close() })
			if werr := os.WriteFile(f, orig, 0o600); werr != nil {
				panic(infraErr{werr})
			}
			return
		}
		if _, ok := err.(*panicErr); ok {
			r.violate("Open|corrupt-index|panic", "Open with a damaged index panicked: %v", err)
			return
		}
		r.probe("open_failed_corrupt_index")
		if ro {
			r.probe("open_failed_corrupt_index_ro")
		}
		if blocking {
			r.probe("open_failed_blocking")
		}
		// the lock must have been released: an allowed Open succeeds now
		for _, mode := range []bool{false, true} {
			oo := r.OOpts
			oo.Readonly, oo.Check, oo.Recover, oo.Eager = mode, false, false, false
			var l2 klevdb.Log
			err2 := guard(func() error {
				var e error
				l2, e = klevdb.Open(r.Dir, oo.K(&r.P.Cfg))
				return e
			})
			if err2 != nil {
				r.violate("Open|after-failed-open|"+errKind(err2)+"|failed-mode="+map[bool]string{false: "rw", true: "ro"}[ro], "after an Open (readonly=%v, blocking=%v) that failed with %q, Open(readonly=%v) of the repaired directory failed: %v", ro, blocking, err, mode, err2)
				return
			}
			_ = guard(func() error { return l2.Close() })
		}
		r.probe("lock_released_after_failed_open")
	}
}

// c19LeftoverProbe: with nothing open, the directory is given what a delete that died between
// "move the rewritten segment in under its new name" and "remove the old segment" leaves
// behind: next to a segment with at least two messages, a second log file that starts at its
// second message. A read-only handle (B: bit0 Check, bit1 Recover) is opened, queried and
// closed: whatever it makes of that directory, no *.log file may change or disappear. The
// directory is put back afterwards.
func c19LeftoverProbe(r *Run, op *Op, bases []int64) {
	full := snapDir(r.Dir)
	restore := func() {
		for n := range snapDir(r.Dir) {
			if _, ok := full[n]; !ok {
				_ = os.Remove(filepath.Join(r.Dir, n))
			}
		}
		for n, b := range full {
			if err := os.WriteFile(filepath.Join(r.Dir, n), b, 0o600); err != nil {
				panic(infraErr{err})
			}
		}
	}
	planted := false
	for i := len(bases) - 1; i >= 0 && !planted; i-- {
		name := fmt.Sprintf("%020d.log", bases[i])
		v, recs, validLen, clean, err := refcodec.DecodeLog(full[name], bases[i])
		if err != nil || !clean || len(recs) < 2 {
			continue
		}
		data := append(append([]byte(nil), refcodec.LogHeader(v)...), full[name][recs[1].Pos:validLen]...)
		if err := os.WriteFile(filepath.Join(r.Dir, fmt.Sprintf("%020d.log", recs[1].Off)), data, 0o600); err != nil {
			panic(infraErr{err})
		}
		planted = true
	}
	if !planted {
		return
	}
	defer restore()
	before := logsOnly(snapDir(r.Dir))
	o := r.OOpts
	o.Readonly, o.Check, o.Recover, o.Eager = true, op.B&1 == 1, op.B&2 == 2, false
	var l klevdb.Log
	oerr := guard(func() error {
		var e error
		l, e = klevdb.Open(r.Dir, o.K(&r.P.Cfg))
		return e
	})
	tag := fmt.Sprintf("crashed-delete-leftover|check=%v|recover=%v", o.Check, o.Recover)
	if pe, ok := oerr.(*panicErr); ok {
		r.violate("ro-damage|"+tag+"|open-panic", "read-only Open of a directory a crashed delete left behind panicked: %v", pe.v)
		return
	}
	if oerr == nil {
		_, _, _ = scanLog(l, 3, int(r.M.Next)*2+20)
		_ = guard(func() error { _, e := l.Stat(); return e })
		_ = guard(func() error { return l.Close() })
		r.probe("ro_leftover_probe_opened")
	} else {
		r.probe("ro_leftover_probe_refused")
	}
	if d := before.diff(logsOnly(snapDir(r.Dir))); d != "" {
		r.violate("ro-damage|"+tag+"|log-file-changed", "a read-only handle (Check=%v Recover=%v) on a directory a crashed delete left behind changed a log file: %s", o.Check, o.Recover, d)
	}
}

// c19DamageProbe: with nothing open, the newest log file gets a torn tail (A=0) or a flipped
// byte inside its last record (A=1); a read-only handle is opened (B: bit0 Check, bit1
// Recover; it may refuse to open), queried and closed. Whatever the handle makes of the
// damage: no *.log file may change, and Close (like a failed Open) must leave the directory
// unlocked. The file is restored afterwards.
func c19DamageProbe(r *Run, s *c19State, op *Op) {
	if r.L != nil || len(s.ro) > 0 {
		return
	}
	bases := segmentBases(r.Dir)
	if len(bases) == 0 {
		return
	}
	if op.A == 2 {
		c19LeftoverProbe(r, op, bases)
		return
	}
	lp := filepath.Join(r.Dir, fmt.Sprintf("%020d.log", bases[len(bases)-1]))
	orig, err := os.ReadFile(lp)
	if err != nil || len(orig) < 40 {
		return
	}
	dam := append([]byte(nil), orig...)
	kind := "torn-tail"
	if op.A == 0 {
		dam = append(dam, 0x12, 0x34, 0x56, 0x78, 0x9a, 0, 0, 0, 0, 0, 0, 1, 0, 0)
	} else {
		kind = "flipped-record-byte"
		dam[len(dam)-12] ^= 0x40
	}
	if err := os.WriteFile(lp, dam, 0o600); err != nil {
		panic(infraErr{err})
	}
	defer func() {
		if err := os.WriteFile(lp, orig, 0o600); err != nil {
			panic(infraErr{err})
		}
	}()
	before := logsOnly(snapDir(r.Dir))
	o := r.OOpts
	o.Readonly, o.Check, o.Recover, o.Eager = true, op.B&1 == 1, op.B&2 == 2, false
	var l klevdb.Log
	oerr := guard(func() error {
		var e error
		l, e = klevdb.Open(r.Dir, o.K(&r.P.Cfg))
		return e
	})
	tag := fmt.Sprintf("%s|check=%v|recover=%v", kind, o.Check, o.Recover)
	if pe, ok := oerr.(*panicErr); ok {
		r.violate("ro-damage|"+tag+"|open-panic", "read-only Open of a log with a %s panicked: %v", kind, pe.v)
		return
	}
	if oerr == nil {
		// reads may fail (the log is damaged), they must not panic
		for _, k := range r.P.Cfg.KeySet {
			key := k
			if e := guard(func() error { _, e := l.GetByKey(key); return e }); e != nil {
				if pe, ok := e.(*panicErr); ok {
					r.violate("ro-damage|"+tag+"|read-panic", "GetByKey on a read-only handle of a damaged log panicked: %v", pe.v)
					return
				}
			}
		}
		_, _, _ = scanLog(l, 3, int(r.M.Next)*2+20)
		_ = guard(func() error { return l.Close() })
		r.probe("ro_damage_probe_opened")
	} else {
		r.probe("ro_damage_probe_refused")
	}
	if d := before.diff(logsOnly(snapDir(r.Dir))); d != "" {
		r.violate("ro-damage|"+tag+"|log-file-changed", "a read-only handle (Check=%v Recover=%v) on a log with a %s changed a log file: %s", o.Check, o.Recover, kind, d)
		return
	}
	// the directory must be unlocked again: a read-write Open of the repaired directory works
	if err := os.WriteFile(lp, orig, 0o600); err != nil {
		panic(infraErr{err})
	}
	wo := r.OOpts
	wo.Readonly, wo.Check, wo.Recover, wo.Eager = false, false, false, false
	var wl klevdb.Log
	if e := guard(func() error {
		var e error
		wl, e = klevdb.Open(r.Dir, wo.K(&r.P.Cfg))
		return e
	}); e != nil {
		if lockErr(e) {
			r.violate("ro-damage|"+tag+"|still-locked", "after a read-only session on a damaged log (open error: %v) the directory is still locked: %v", oerr, e)
		}
		return
	}
	_ = guard(func() error { return wl.Close() })
}

// c19FailOpenStray: an Open that fails while the segments are listed (a file named like a log
// without an offset in its name, as a copy made by hand leaves it) must release the lock too.
// Nothing is open when this runs; the file is removed again before the lock is tested.
func c19FailOpenStray(r *Run, ro, blocking bool, opts klevdb.Options) {
	if _, err := os.Stat(r.Dir); err != nil {
		return
	}
	stray := filepath.Join(r.Dir, "backup.log")
	if err := os.WriteFile(stray, nil, 0o600); err != nil {
		panic(infraErr{err})
	}
	var l klevdb.Log
	err := guard(func() error {
		var e error
		if blocking {
			var bl klevdb.BlockingLog
			bl, e = klevdb.OpenBlocking(r.Dir, opts)
			if e == nil {
				l = bl
			}
			return e
		}
		l, e = klevdb.Open(r.Dir, opts)
		return e
	})
	if rerr := os.Remove(stray); rerr != nil {
		panic(infraErr{rerr})
	}
	r.logf("fail_open kind=4 ro=%v err=%v", ro, errStr(err))
	if err == nil {
		// the property does not say that such a file must make Open fail
		_ = guard(func() error { return l.Close() })
		return
	}
	if _, ok := err.(*panicErr); ok {
		r.violate("Open|stray-file|panic", "Open of a directory with a stray *.log file panicked: %v", err)
		return
	}
	r.probe("open_failed_stray_file")
	for _, mode := range []bool{false, true} {
		oo := r.OOpts
		oo.Readonly, oo.Check, oo.Recover, oo.Eager = mode, false, false, false
		var l2 klevdb.Log
		err2 := guard(func() error {
			var e error
			l2, e = klevdb.Open(r.Dir, oo.K(&r.P.Cfg))
			return e
		})
		if err2 != nil {
			r.violate("Open|after-failed-open|"+errKind(err2)+"|failed-mode="+map[bool]string{false: "rw", true: "ro"}[ro], "after an Open (readonly=%v, blocking=%v) that failed with %q while listing the segments, Open(readonly=%v) of the directory without the stray file failed: %v", ro, blocking, err, mode, err2)
			return
		}
		_ = guard(func() error { return l2.Close() })
	}
	r.probe("lock_released_after_failed_open")
}

// c20SetTimes gives every file of src that also exists in tgt the modification time of its
// counterpart (coarse) or that time plus one second.
func c20SetTimes(src, tgt string, coarse bool) {
	ents, err := os.ReadDir(src)
	if err != nil {
		panic(infraErr{err})
	}
	for _, e := range ents {
		if !e.Type().IsRegular() {
			continue
		}
		st, err := os.Stat(filepath.Join(tgt, e.Name()))
		if err != nil {
			continue
		}
		t := st.ModTime()
		if !coarse {
			t = t.Add(time.Second)
		}
		if err := os.Chtimes(filepath.Join(src, e.Name()), t, t); err != nil {
			panic(infraErr{err})
		}
	}
}
