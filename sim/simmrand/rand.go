// Package simmrand replaces math/rand in the instrumented copy: the package-level functions
// (the global, randomly seeded source) draw from the run's PRNG while a simulation is active.
package simmrand

import (
	stdrand "math/rand"

	"github.com/klev-dev/klevdb/verifsim/sim"
)

type src struct{}

func (src) Int63() int64 {
	if sim.Active() {
		return int64(sim.Rand64() >> 1)
	}
	return stdrand.Int63()
}

func (src) Uint64() uint64 {
	if sim.Active() {
		return sim.Rand64()
	}
	return stdrand.Uint64()
}

func (src) Seed(int64) {}

var r = stdrand.New(src{})

func Seed(seed int64)                    {}
func ExpFloat64() float64                { return r.ExpFloat64() }
func Float32() float32                   { return r.Float32() }
func Float64() float64                   { return r.Float64() }
func Int() int                           { return r.Int() }
func Int31() int32                       { return r.Int31() }
func Int31n(n int32) int32               { return r.Int31n(n) }
func Int63() int64                       { return r.Int63() }
func Int63n(n int64) int64               { return r.Int63n(n) }
func Intn(n int) int                     { return r.Intn(n) }
func NormFloat64() float64               { return r.NormFloat64() }
func Perm(n int) []int                   { return r.Perm(n) }
func Read(p []byte) (n int, err error)   { return r.Read(p) }
func Shuffle(n int, swap func(i, j int)) { r.Shuffle(n, swap) }
func Uint32() uint32                     { return r.Uint32() }
func Uint64() uint64                     { return r.Uint64() }
