package harness

import "fmt"

var sKeys = [][]byte{nil, []byte("a"), []byte("b")}

func genSched(rng *Rng, ntasks int) *SchedP {
	sp := &SchedP{HoldTask2: -1}
	switch rng.Pick(25, 25, 40, 10) {
	case 0:
		sp.Strategy = 0
	case 1:
		sp.Strategy = 1
		sp.PCTDepth = rng.Range(1, 3)
		sp.PCTLen = rng.Range(40, 400)
	case 2:
		sp.Strategy = 2
		sp.HoldTask = rng.Intn(ntasks)
		sp.HoldYield = rng.Range(1, 140)
		if rng.Chance(20) && ntasks > 2 {
			sp.HoldTask2 = (sp.HoldTask + 1 + rng.Intn(ntasks-1)) % ntasks
			sp.HoldYield2 = rng.Range(1, 100)
		}
	default:
		sp.Strategy = 3
		sp.Preempts = rng.Range(1, 3)
		sp.PCTLen = rng.Range(40, 400)
	}
	return sp
}

func sVal(t, c, i int) []byte { return []byte(fmt.Sprintf("t%dc%dm%d", t, c, i)) }

func genSetup(rng *Rng, plan *Plan, maxMsgs int) int {
	n := 0
	// pre-populated segments: zero-time messages (stamped with the simulated clock) so that
	// times never decrease with offset also across the concurrent phase
	for k, m := 0, rng.Range(0, 3); k < m && n < maxMsgs; k++ {
		op := Op{K: "pub"}
		for i, b := 0, rng.Range(1, 3); i < b && n < maxMsgs; i++ {
			op.Msgs = append(op.Msgs, PMsg{Key: sKeys[rng.Intn(len(sKeys))], Val: sVal(99, k, i), TMode: 2})
			n++
		}
		plan.Ops = append(plan.Ops, op)
		if rng.Chance(40) {
			plan.Ops = append(plan.Ops, Op{K: "clock", A: rng.I64(1, 2000000)})
		}
	}
	if n > 1 && rng.Chance(25) {
		plan.Ops = append(plan.Ops, Op{K: "del", Sel: &OffSel{Kind: "abs", Abs: []int64{int64(rng.Intn(n))}}})
	}
	if n > 0 && rng.Chance(35) {
		// reopen: segments start out as lazily loaded readers; with some index files lost the
		// first readers of a segment have to rebuild them, possibly several at once
		o := plan.Cfg.Open
		op := Op{K: "reopen", Open: &o}
		if rng.Chance(45) {
			op.RmIdx = []int64{-1}
		}
		plan.Ops = append(plan.Ops, op)
	}
	return n
}

func genPlanC08(def *PropDef, tier string, seed uint64, run int64) *Plan {
	rng := NewRng(seed)
	cfg := RunCfg{Profile: "concurrent", StartUS: defaultStartUS + rng.I64(0, 1000000), ObsSeed: rng.U64(), Monotone: true, KeySet: sKeys}
	cfg.Keys, cfg.Times = true, true
	if rng.Chance(15) {
		cfg.Keys, cfg.Times = rng.Bool(), rng.Bool()
	}
	// 1-3 messages per segment: records are ~45 bytes
	cfg.Open = OpenOpts{Rollover: []int64{1, 60, 100, 150}[rng.Intn(4)], NewV: rng.Pick(30, 25, 45), Keep: rng.Chance(40), AutoSync: rng.Chance(20)}
	plan := &Plan{Prop: def.ID, Engine: "S", Tier: tier, Seed: seed, Run: run, Cfg: cfg}
	pre := genSetup(rng, plan, 8)
	nt := rng.Range(2, 5)
	if tier == "thorough" && rng.Chance(30) {
		nt = 6
	}
	hi := int64(pre + 6)
	if pre >= 3 && rng.Chance(15) {
		// unload/reload stress: readers of the old segments against GC tasks
		plan.Tasks = nil
		nr := rng.Range(2, 4)
		for t := 0; t < nr; t++ {
			var script []Op
			for c, nc := 0, rng.Range(2, 4); c < nc; c++ {
				switch rng.Pick(40, 25, 15, 20) {
				case 0:
					script = append(script, Op{K: "consume", A: rng.I64(-2, int64(pre)), B: int64(rng.Range(1, 3))})
				case 1:
					script = append(script, Op{K: "get", A: rng.I64(0, int64(pre)-1)})
				case 2:
					script = append(script, Op{K: "get_key", Key: sKeys[rng.Intn(len(sKeys))]})
				default:
					script = append(script, Op{K: "consume_key", Key: sKeys[rng.Intn(len(sKeys))], A: rng.I64(-2, int64(pre)), B: 2})
				}
			}
			plan.Tasks = append(plan.Tasks, script)
		}
		for t, ng := 0, rng.Range(1, 2); t < ng; t++ {
			var script []Op
			for c, nc := 0, rng.Range(2, 4); c < nc; c++ {
				script = append(script, Op{K: "gc", A: 0})
			}
			plan.Tasks = append(plan.Tasks, script)
		}
		if rng.Chance(40) {
			plan.Tasks = append(plan.Tasks, []Op{{K: "pub", Msgs: []PMsg{{Key: sKeys[0], Val: sVal(7, 0, 0), TMode: 2}}}})
		}
		plan.Sched = genSched(rng, len(plan.Tasks))
		return plan
	}
	if pre >= 4 && rng.Chance(12) {
		// several deleters on the same (old) segments, a reader, maybe a publisher
		plan.Tasks = nil
		nd := rng.Range(2, 3)
		for t := 0; t < nd; t++ {
			var script []Op
			for c, nc := 0, rng.Range(1, 2); c < nc; c++ {
				script = append(script, Op{K: "del", Sel: &OffSel{Kind: "abs", Abs: []int64{rng.I64(0, int64(pre)-1)}}})
			}
			if rng.Chance(50) {
				script = append(script, Op{K: "get", A: rng.I64(0, int64(pre)-1)})
			}
			plan.Tasks = append(plan.Tasks, script)
		}
		plan.Tasks = append(plan.Tasks, []Op{{K: "consume", A: -2, B: 4}, {K: "consume", A: rng.I64(0, int64(pre)), B: 3}})
		if rng.Chance(40) {
			plan.Tasks = append(plan.Tasks, []Op{{K: "pub", Msgs: []PMsg{{Key: sKeys[1], Val: sVal(8, 0, 0), TMode: 2}}}})
		}
		plan.Sched = genSched(rng, len(plan.Tasks))
		return plan
	}
	for t := 0; t < nt; t++ {
		var script []Op
		nc := rng.Range(1, 4)
		role := rng.Pick(30, 25, 25, 20) // publisher, reader, deleter, mixed
		for c := 0; c < nc; c++ {
			var op Op
			w := []int{25, 10, 6, 8, 6, 5, 18, 4, 4, 4, 6, 4}
			switch role {
			case 0:
				w[0] = 70
			case 1:
				w[0], w[6] = 5, 3
				w[1], w[3] = 25, 15
			case 2:
				w[6] = 60
			}
			switch rng.Pick(w...) {
			case 0:
				op = Op{K: "pub"}
				for i, b := 0, rng.Range(1, 3); i < b; i++ {
					op.Msgs = append(op.Msgs, PMsg{Key: sKeys[rng.Intn(len(sKeys))], Val: sVal(t, c, i), TMode: 2, Junk: rng.I64(0, 3)})
				}
			case 1:
				op = Op{K: "consume", A: rng.I64(-2, hi), B: int64(rng.Range(1, 4))}
			case 2:
				op = Op{K: "consume_key", Key: sKeys[rng.Intn(len(sKeys))], A: rng.I64(-2, hi), B: int64(rng.Range(1, 3))}
			case 3:
				op = Op{K: "get", A: rng.I64(-2, hi)}
			case 4:
				op = Op{K: "get_key", Key: sKeys[rng.Intn(len(sKeys))]}
			case 5:
				op = Op{K: "get_time", A: rng.I64(-10, 3000000)}
				if rng.Chance(25) {
					op.A = rng.I64(-10, 0) // before (or at) the first message: answered by the oldest message
				}
			case 6:
				sel := &OffSel{Kind: "abs"}
				switch rng.Pick(50, 25, 25) {
				case 0:
					sel.Abs = []int64{rng.I64(0, hi)}
				case 1:
					a := rng.I64(0, hi)
					sel.Abs = []int64{a, a + 1}
				default:
					a := rng.I64(0, hi)
					sel.Abs = []int64{a, a + 1, a + 2, a + 3}
				}
				op = Op{K: "del", Sel: sel}
			case 7:
				op = Op{K: "sync"}
			case 8:
				op = Op{K: "next"}
			case 9:
				op = Op{K: "stat"}
			case 10:
				op = Op{K: "gc", A: []int64{0, 0, 1000000}[rng.Intn(3)]}
			default:
				op = Op{K: "clock", A: rng.I64(1, 3000000)}
			}
			script = append(script, op)
		}
		plan.Tasks = append(plan.Tasks, script)
	}
	plan.Sched = genSched(rng, nt)
	return plan
}

func genPlanC18(def *PropDef, tier string, seed uint64, run int64) *Plan {
	rng := NewRng(seed)
	cfg := RunCfg{Profile: "blocking", StartUS: defaultStartUS + rng.I64(0, 1000000), ObsSeed: rng.U64(), Monotone: true, KeySet: sKeys}
	cfg.Keys, cfg.Times = true, rng.Bool()
	cfg.Open = OpenOpts{Rollover: []int64{1, 100, 0}[rng.Intn(3)], NewV: 2}
	plan := &Plan{Prop: def.ID, Engine: "S", Tier: tier, Seed: seed, Run: run, Cfg: cfg}
	pre := int64(genSetupSimple(rng, plan))
	nw := rng.Range(1, 4)
	if rng.Chance(20) {
		nw = rng.Range(5, 8)
	}
	closeAtYield := rng.Chance(35) // the controller is the only publisher and closes at a chosen instant
	np := 0
	if !closeAtYield {
		np = rng.Range(0, 3)
	}
	// waiters: one blocking call each, context index = task index
	for w := 0; w < nw; w++ {
		off := pre
		switch rng.Pick(20, 40, 25, 10, 5) {
		case 0:
			off = rng.I64(0, max(pre-1, 0))
		case 1:
			off = pre
		case 2:
			off = pre + rng.I64(1, 3)
		case 3:
			off = -1 // OffsetNewest
		default:
			off = -2
		}
		op := Op{K: "consume_b", A: off, B: int64(rng.Range(1, 3)), H: w}
		if rng.Chance(30) {
			op.K, op.Key = "consume_key_b", sKeys[rng.Intn(len(sKeys))]
		}
		var script []Op
		if rng.Chance(25) {
			script = append(script, Op{K: "yield", A: int64(rng.Range(1, 30))})
		}
		plan.Tasks = append(plan.Tasks, append(script, op))
	}
	mkPub := func(t, c int) Op {
		op := Op{K: "pub"}
		for i, b := 0, rng.Pick(12, 60, 28); i < b; i++ {
			op.Msgs = append(op.Msgs, PMsg{Key: sKeys[rng.Intn(len(sKeys))], Val: sVal(t, c, i), TMode: 2})
		}
		return op
	}
	for p := 0; p < np; p++ {
		var script []Op
		for c, n := 0, rng.Range(1, 3); c < n; c++ {
			if rng.Chance(30) {
				script = append(script, Op{K: "yield", A: int64(rng.Range(1, 40))})
			}
			script = append(script, mkPub(nw+p, c))
		}
		plan.Tasks = append(plan.Tasks, script)
	}
	// controller
	var ctl []Op
	ct := nw + np
	for c, n := 0, rng.Range(1, 4); c < n; c++ {
		switch rng.Pick(30, 30, 25, 15) {
		case 0:
			ctl = append(ctl, Op{K: "yield", A: int64(rng.Range(1, 60))})
		case 1:
			ctl = append(ctl, Op{K: "cancel", H: rng.Intn(nw)})
		case 2:
			if closeAtYield || np == 0 {
				ctl = append(ctl, mkPub(ct, c))
			} else {
				ctl = append(ctl, Op{K: "yield", A: int64(rng.Range(1, 20))})
			}
		default:
			ctl = append(ctl, Op{K: "wait_quiescent"})
		}
	}
	if closeAtYield {
		ctl = append(ctl, Op{K: "yield", A: int64(rng.Range(0, 40))}, Op{K: "close"})
		if rng.Chance(40) {
			// a wait that starts after Close
			ctl = append(ctl, Op{K: "consume_b", A: pre + 20, B: 1, H: 15})
		}
		ctl = append(ctl, Op{K: "wait_quiescent"})
	} else {
		ctl = append(ctl, Op{K: "wait_quiescent"})
		if rng.Chance(50) {
			// a wait that starts when all publishers are done, just below NextOffset (A <= -1000:
			// NextOffset-1-(-1000-A) at the time of the call): it must return at once, whatever
			// order the publishers' notifications were delivered in
			ctl = append(ctl, Op{K: "consume_b", A: -1000 - int64(rng.Pick(70, 20, 10)), B: int64(rng.Range(1, 3)), H: 14})
		}
		switch rng.Pick(45, 40, 15) {
		case 0:
			for w := 0; w < nw; w++ {
				ctl = append(ctl, Op{K: "cancel", H: w})
			}
			ctl = append(ctl, Op{K: "wait_quiescent"})
		case 1:
			ctl = append(ctl, Op{K: "close"})
			if rng.Chance(40) {
				ctl = append(ctl, Op{K: "consume_b", A: pre + 20, B: 1, H: 15})
			}
			ctl = append(ctl, Op{K: "wait_quiescent"})
		default:
			// a publish that passes every waiter, then cancel the rest
			op := Op{K: "pub"}
			for i := 0; i < 5; i++ {
				op.Msgs = append(op.Msgs, PMsg{Key: sKeys[i%len(sKeys)], Val: sVal(ct, 9, i), TMode: 2})
			}
			ctl = append(ctl, op, Op{K: "wait_quiescent"})
			for w := 0; w < nw; w++ {
				ctl = append(ctl, Op{K: "cancel", H: w})
			}
			ctl = append(ctl, Op{K: "wait_quiescent"})
		}
	}
	plan.Tasks = append(plan.Tasks, ctl)
	plan.Sched = genSched(rng, len(plan.Tasks))
	return plan
}

func genSetupSimple(rng *Rng, plan *Plan) int {
	n := 0
	for k, m := 0, rng.Range(0, 2); k < m; k++ {
		op := Op{K: "pub"}
		for i, b := 0, rng.Range(1, 3); i < b; i++ {
			op.Msgs = append(op.Msgs, PMsg{Key: sKeys[rng.Intn(len(sKeys))], Val: sVal(98, k, i), TMode: 2})
			n++
		}
		plan.Ops = append(plan.Ops, op)
	}
	return n
}
