package harness

import (
	"context"
	"time"

	"github.com/klev-dev/klevdb"
	"github.com/klev-dev/klevdb/verifsim/sim"
)

// The typed facade (typed.go, typed_blocking.go, typed_codec.go of the repository) is a
// second way to reach every call the properties speak about. A share of the runs of every
// engine-H property and of C08/C18 drive the log through it: typedLog implements klevdb.Log
// on top of TLog[string, string] with StringCodec (which carries arbitrary bytes), so all
// oracles apply unchanged.

type tstr = klevdb.TLog[string, string]

type typedLog struct{ t tstr }

func openTyped(dir string, opts klevdb.Options) (klevdb.Log, error) {
	t, err := klevdb.OpenT[string, string](dir, opts, klevdb.StringCodec, klevdb.StringCodec)
	if err != nil {
		return nil, err
	}
	return &typedLog{t}, nil
}

func toT(m klevdb.Message) klevdb.TMessage[string, string] {
	return klevdb.TMessage[string, string]{Offset: m.Offset, Time: m.Time,
		Key: string(m.Key), KeyEmpty: m.Key == nil, Value: string(m.Value), ValueEmpty: m.Value == nil}
}

func strBytes(s string) []byte {
	if s == "" {
		return nil
	}
	return []byte(s)
}

func fromT(t klevdb.TMessage[string, string]) klevdb.Message {
	return klevdb.Message{Offset: t.Offset, Time: t.Time, Key: strBytes(t.Key), Value: strBytes(t.Value)}
}

func fromTs(ts []klevdb.TMessage[string, string]) []klevdb.Message {
	if ts == nil {
		return nil
	}
	out := make([]klevdb.Message, len(ts))
	for i := range ts {
		out[i] = fromT(ts[i])
	}
	return out
}

// Publish: Log.Publish stores the assigned offset and time into the caller's slice, which the
// oracles read; the typed facade has no such channel (it publishes copies). So a message
// without a time is given the current (simulated) time before the call, which is what the
// log would do, and the offsets are completed from the returned next offset. The in-place
// assignment and the log's own time stamping are checked by the untyped runs only.
func (l *typedLog) Publish(ms []klevdb.Message) (int64, error) {
	ts := make([]klevdb.TMessage[string, string], len(ms))
	for i := range ms {
		ts[i] = toT(ms[i])
		if ts[i].Time.IsZero() {
			ts[i].Time = sim.Now()
		}
	}
	next, err := l.t.Publish(ts)
	if err == nil {
		for i := range ms {
			ms[i].Offset = next - int64(len(ms)) + int64(i)
			ms[i].Time = ts[i].Time
		}
	}
	return next, err
}

func (l *typedLog) NextOffset() (int64, error) { return l.t.NextOffset() }

func (l *typedLog) Consume(offset, maxCount int64) (int64, []klevdb.Message, error) {
	n, ts, err := l.t.Consume(offset, maxCount)
	return n, fromTs(ts), err
}

func (l *typedLog) ConsumeByKey(key []byte, offset, maxCount int64) (int64, []klevdb.Message, error) {
	n, ts, err := l.t.ConsumeByKey(string(key), key == nil, offset, maxCount)
	return n, fromTs(ts), err
}

func (l *typedLog) Get(offset int64) (klevdb.Message, error) {
	t, err := l.t.Get(offset)
	if err != nil {
		return klevdb.InvalidMessage, err
	}
	return fromT(t), nil
}

func (l *typedLog) GetByKey(key []byte) (klevdb.Message, error) {
	t, err := l.t.GetByKey(string(key), key == nil)
	if err != nil {
		return klevdb.InvalidMessage, err
	}
	return fromT(t), nil
}

func (l *typedLog) OffsetByKey(key []byte) (int64, error) {
	return l.t.OffsetByKey(string(key), key == nil)
}

func (l *typedLog) GetByTime(start time.Time) (klevdb.Message, error) {
	t, err := l.t.GetByTime(start)
	if err != nil {
		return klevdb.InvalidMessage, err
	}
	return fromT(t), nil
}

func (l *typedLog) OffsetByTime(start time.Time) (int64, time.Time, error) {
	return l.t.OffsetByTime(start)
}

func (l *typedLog) Delete(offsets map[int64]struct{}) ([]klevdb.Message, int64, error) {
	ts, sz, err := l.t.Delete(offsets)
	return fromTs(ts), sz, err
}

func (l *typedLog) Size(m klevdb.Message) int64      { return l.t.Size(m) }
func (l *typedLog) Stat() (klevdb.Stats, error)      { return l.t.Stat() }
func (l *typedLog) Backup(dir string) error          { return l.t.Backup(dir) }
func (l *typedLog) Sync() (int64, error)             { return l.t.Sync() }
func (l *typedLog) GC(unusedFor time.Duration) error { return l.t.GC(unusedFor) }
func (l *typedLog) Close() error                     { return l.t.Close() }

// typedBlocking implements klevdb.BlockingLog on top of TBlockingLog[string, string].
type typedBlocking struct {
	typedLog
	b klevdb.TBlockingLog[string, string]
}

// wrapBlocking is WrapBlocking for a plain log and WrapTBlocking for the typed facade.
func wrapBlocking(l klevdb.Log) (klevdb.BlockingLog, error) {
	tl, ok := l.(*typedLog)
	if !ok {
		return klevdb.WrapBlocking(l)
	}
	b, err := klevdb.WrapTBlocking[string, string](tl.t)
	if err != nil {
		return nil, err
	}
	return &typedBlocking{typedLog{b}, b}, nil
}

func openBlockingTyped(dir string, opts klevdb.Options) (klevdb.BlockingLog, error) {
	b, err := klevdb.OpenTBlocking[string, string](dir, opts, klevdb.StringCodec, klevdb.StringCodec)
	if err != nil {
		return nil, err
	}
	return &typedBlocking{typedLog{b}, b}, nil
}

func (l *typedBlocking) ConsumeBlocking(ctx context.Context, offset, maxCount int64) (int64, []klevdb.Message, error) {
	n, ts, err := l.b.ConsumeBlocking(ctx, offset, maxCount)
	return n, fromTs(ts), err
}

func (l *typedBlocking) ConsumeByKeyBlocking(ctx context.Context, key []byte, offset, maxCount int64) (int64, []klevdb.Message, error) {
	n, ts, err := l.b.ConsumeByKeyBlocking(ctx, string(key), key == nil, offset, maxCount)
	return n, fromTs(ts), err
}
