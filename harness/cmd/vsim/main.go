package main

import (
	"flag"
	"fmt"
	"os"
	"runtime"
	"time"

	"github.com/klev-dev/klevdb/verifsim/harness"
)

func main() {
	defer func() {
		if v := recover(); v != nil {
			if e, ok := v.(interface{ infra() }); ok {
				_ = e
				fmt.Fprintln(os.Stderr, "INFRA-ERROR:", v)
				os.Exit(2)
			}
			panic(v)
		}
	}()
	if len(os.Args) < 2 {
		fmt.Fprintln(os.Stderr, "usage: vsim run|worker|exec ...")
		os.Exit(2)
	}
	switch os.Args[1] {
	case "worker":
		fs := flag.NewFlagSet("worker", flag.ExitOnError)
		prop := fs.String("prop", "", "")
		tier := fs.String("tier", "quick", "")
		seed := fs.Uint64("seed", 1, "")
		start := fs.Int64("start", 0, "")
		stride := fs.Int64("stride", 1, "")
		deadline := fs.Int64("deadline", 0, "unix ms")
		maxruns := fs.Int64("maxruns", 0, "")
		scratch := fs.String("scratch", "", "")
		_ = fs.Bool("race", false, "")
		_ = fs.Parse(os.Args[2:])
		os.Exit(harness.WorkerMain(*prop, *tier, *seed, *start, *stride, time.UnixMilli(*deadline), *maxruns, *scratch))
	case "exec":
		fs := flag.NewFlagSet("exec", flag.ExitOnError)
		plan := fs.String("plan", "", "")
		scratch := fs.String("scratch", "", "")
		_ = fs.Parse(os.Args[2:])
		os.Exit(harness.ExecMain(*plan, *scratch))
	case "run":
		fs := flag.NewFlagSet("run", flag.ExitOnError)
		c := &harness.SuperCfg{}
		fs.StringVar(&c.Prop, "prop", "", "")
		fs.StringVar(&c.Tier, "tier", "quick", "")
		fs.Uint64Var(&c.Seed, "seed", 1, "")
		fs.IntVar(&c.BudgetS, "budget", 0, "")
		fs.IntVar(&c.Workers, "workers", runtime.NumCPU(), "")
		fs.StringVar(&c.OutDir, "out", "", "")
		fs.StringVar(&c.Evidence, "evidence", "", "")
		fs.StringVar(&c.KnownFile, "known", "", "")
		fs.StringVar(&c.Scratch, "scratch", "", "")
		fs.StringVar(&c.Bin, "bin", "", "")
		fs.StringVar(&c.BinRace, "bin-race", "", "")
		fs.Int64Var(&c.MaxRuns, "maxruns", 0, "")
		_ = fs.Parse(os.Args[2:])
		if def := harness.Props[c.Prop]; def != nil && c.BudgetS == 0 {
			c.BudgetS = def.QuickS
			if c.Tier == "thorough" {
				c.BudgetS = def.ThorS
			}
		}
		os.Exit(harness.Supervise(c))
	case "replay":
		fs := flag.NewFlagSet("replay", flag.ExitOnError)
		c := &harness.SuperCfg{}
		plan := fs.String("plan", "", "")
		fs.StringVar(&c.Scratch, "scratch", "", "")
		fs.StringVar(&c.Bin, "bin", "", "")
		fs.StringVar(&c.BinRace, "bin-race", "", "")
		_ = fs.Parse(os.Args[2:])
		os.Exit(harness.ReplayMain(c, *plan))
	default:
		fmt.Fprintln(os.Stderr, "unknown subcommand", os.Args[1])
		os.Exit(2)
	}
}
