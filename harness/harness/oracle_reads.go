package harness

import (
	"fmt"
	"math"
	"sort"
	"time"

	"github.com/klev-dev/klevdb"
)

// ---- C03: Consume cursor ----

func consumeG(l klevdb.Log, off, mc int64) (next int64, msgs []Msg, err error) {
	var km []klevdb.Message
	err = guard(func() error {
		var e error
		next, km, e = l.Consume(off, mc)
		return e
	})
	return next, fromKs(km), err
}

// checkConsume evaluates the C03 predicate for one call. Returns (clause, message) or "".
func checkConsume(m *Model, off, mc, next int64, msgs []Msg, err error) (string, string) {
	call := fmt.Sprintf("Consume(%d,%d)", off, mc)
	if off > m.Next {
		if classify(err) != EInvalidOffset {
			return "beyond-next|got=" + classify(err).String(), fmt.Sprintf("%s with NextOffset=%d: want ErrInvalidOffset, got next=%d n=%d err=%v", call, m.Next, next, len(msgs), err)
		}
		return "", ""
	}
	if err != nil {
		return "error|" + errKind(err), fmt.Sprintf("%s with NextOffset=%d failed: %v", call, m.Next, err)
	}
	if off == klevdb.OffsetNewest {
		if next != m.Next || len(msgs) != 0 {
			return "newest", fmt.Sprintf("%s: want (%d, none), got next=%d n=%d", call, m.Next, next, len(msgs))
		}
		return "", ""
	}
	S := m.Live
	if off >= 0 {
		S = m.From(off)
	}
	if int64(len(msgs)) > mc {
		return "too-many", fmt.Sprintf("%s returned %d messages", call, len(msgs))
	}
	for i, g := range msgs {
		if i >= len(S) || !sameMsg(g, S[i]) {
			want := "nothing"
			if i < len(S) {
				want = S[i].String()
			}
			kind := "not-a-run"
			if i < len(S) && g.Off == S[i].Off {
				kind = "altered"
			} else if i < len(S) && g.Off > S[i].Off {
				kind = "gap"
			} else if i > 0 && g.Off <= msgs[i-1].Off {
				kind = "duplicate"
			} else if !m.IsLive(g.Off) {
				kind = "dead-message"
			}
			return kind, fmt.Sprintf("%s: message %d is %v, the live sequence from there has %s", call, i, g, want)
		}
	}
	if len(msgs) > 0 {
		if want := msgs[len(msgs)-1].Off + 1; next != want {
			return "next-after-run", fmt.Sprintf("%s: returned next=%d, last message %d", call, next, want-1)
		}
		return "", ""
	}
	if len(S) == 0 {
		if next != m.Next {
			return "caught-up", fmt.Sprintf("%s: nothing live at or after the offset, want next=NextOffset=%d, got %d", call, m.Next, next)
		}
		return "", ""
	}
	if next > S[0].Off {
		return "stepped-over", fmt.Sprintf("%s: returned nothing and next=%d, stepping over live message %d", call, next, S[0].Off)
	}
	return "", ""
}

func cursorWalk(r *Run, mc int64) {
	m := r.M
	off := klevdb.OffsetOldest
	var seen []Msg
	bound := len(m.Live) + int(m.Next) + 4
	for calls := 0; ; calls++ {
		if calls > bound {
			r.violate("cursor|no-termination", "cursor from OffsetOldest (maxCount %d) did not reach NextOffset=%d within %d calls (at %d)", mc, m.Next, bound, off)
			return
		}
		next, msgs, err := consumeG(r.L, off, mc)
		if err != nil {
			r.violate("cursor|error|"+errKind(err), "cursor: Consume(%d,%d) failed: %v", off, mc, err)
			return
		}
		seen = append(seen, msgs...)
		if len(msgs) == 0 {
			if off >= 0 && next == off {
				if next != m.Next {
					r.violate("cursor|stopped-early", "cursor stopped at %d, NextOffset is %d", next, m.Next)
					return
				}
				break
			}
			if off >= 0 && next < off {
				r.violate("cursor|backwards", "Consume(%d,%d) returned next=%d", off, mc, next)
				return
			}
		}
		if next < 0 {
			r.violate("cursor|negative-next", "Consume(%d,%d) returned next=%d", off, mc, next)
			return
		}
		off = next
	}
	if d := diffLive(seen, m.Live); d != "" {
		r.violate("cursor|"+diffKind(d), "cursor from OffsetOldest (maxCount %d): %s", mc, d)
	}
}

func hooksC03() Hooks {
	return Hooks{
		AfterStep: func(r *Run, op *Op) {
			if !r.Deep {
				return
			}
			r.noteState()
			mcs := []int64{1, 2, 7, 40}
			if r.P.Tier == "thorough" {
				mcs = mcs[:0]
				for i := int64(1); i <= 40; i++ {
					mcs = append(mcs, i)
				}
			}
			for off := int64(-5); off <= r.M.Next+2; off++ {
				for _, mc := range mcs {
					next, msgs, err := consumeG(r.L, off, mc)
					if c, msg := checkConsume(r.M, off, mc, next, msgs, err); c != "" {
						r.violate("Consume|"+c+stateTag(r), "%s", msg)
						return
					}
				}
			}
			// "any maxCount of at least 1": also the ones that mean "everything"
			offs := []int64{klevdb.OffsetOldest, r.Obs.I64(0, r.M.Next), r.M.Next + 1000, math.MaxInt64}
			if n := len(r.M.Live); n > 0 {
				offs = append(offs, r.M.Live[r.Obs.Intn(n)].Off)
			}
			for _, off := range offs {
				for _, mc := range []int64{math.MaxInt64, 1 << 40, math.MaxInt32} {
					next, msgs, err := consumeG(r.L, off, mc)
					if c, msg := checkConsume(r.M, off, mc, next, msgs, err); c != "" {
						r.violate("Consume|huge-maxCount|"+c, "%s", msg)
						return
					}
				}
			}
			r.probe("huge_maxcount_checked")
			cursorWalk(r, mcs[r.Obs.Intn(len(mcs))])
			if len(r.M.Live) > 0 && int64(len(r.M.Live)) < r.M.Next {
				r.probe("holes_checked")
			}
		},
	}
}

// stateTag adds a coarse state predicate to a signature (so that a known finding is pinned
// to the state class it was seen in).
func stateTag(r *Run) string {
	bases := segmentBases(r.Dir)
	live := r.M.Live
	switch {
	case len(live) == 0:
		return "|state=empty"
	case len(bases) > 0 && live[len(live)-1].Off < bases[len(bases)-1]:
		return "|state=head-segment-empty"
	}
	return "|state=other"
}

// ---- C04: Get ----

func getG(l klevdb.Log, off int64) (Msg, error) {
	var km klevdb.Message
	err := guard(func() error {
		var e error
		km, e = l.Get(off)
		return e
	})
	if err != nil {
		return Msg{}, err
	}
	return fromK(km), nil
}

func hooksC04() Hooks {
	return Hooks{
		AfterStep: func(r *Run, op *Op) {
			if !r.Deep {
				return
			}
			r.noteState()
			m := r.M
			offs := make([]int64, 0, m.Next+5)
			for off := int64(0); off <= m.Next+2; off++ {
				offs = append(offs, off)
			}
			// far beyond what was ever assigned
			offs = append(offs, m.Next+1000+r.Obs.I64(0, 1000), math.MaxInt64-1, math.MaxInt64)
			for _, off := range offs {
				got, err := getG(r.L, off)
				want, live := m.Get(off)
				switch {
				case live:
					if err != nil {
						r.violate("Get(live)|got="+errKind(err)+stateTag(r), "Get(%d) of a live message failed: %v", off, err)
						return
					}
					if !sameMsg(got, want) {
						r.violate("Get(live)|wrong-message", "Get(%d) returned %v, want %v", off, got, want)
						return
					}
				case off < m.Next:
					if classify(err) != ENotFound {
						r.violate("Get(deleted)|got="+resKind(err)+stateTag(r), "Get(%d) of an assigned but deleted offset: want ErrNotFound, got %v err=%v", off, got, err)
						return
					}
				default:
					if classify(err) != EInvalidOffset {
						r.violate("Get(unassigned)|got="+resKind(err)+stateTag(r), "Get(%d) with NextOffset=%d: want ErrInvalidOffset, got %v err=%v", off, m.Next, got, err)
						return
					}
				}
				// agreement with Consume
				next, msgs, cerr := consumeG(r.L, off, 1)
				consumeShows := cerr == nil && len(msgs) == 1 && msgs[0].Off == off
				if (err == nil) != consumeShows {
					r.violate("Get-vs-Consume|disagree"+stateTag(r), "Get(%d) err=%v but Consume(%d,1) returned next=%d msgs=%v err=%v", off, err, off, next, msgs, cerr)
					return
				}
				if err == nil && !sameMsg(got, msgs[0]) {
					r.violate("Get-vs-Consume|content", "Get(%d)=%v, Consume shows %v", off, got, msgs[0])
					return
				}
			}
			for _, rel := range []int64{klevdb.OffsetOldest, klevdb.OffsetNewest} {
				name := "OffsetOldest"
				if rel == klevdb.OffsetNewest {
					name = "OffsetNewest"
				}
				got, err := getG(r.L, rel)
				if len(m.Live) == 0 {
					if classify(err) != EInvalidOffset {
						r.violate("Get("+name+")|empty|got="+resKind(err), "Get(%s) on an empty log: want ErrInvalidOffset, got %v err=%v", name, got, err)
						return
					}
					r.probe("relative_on_empty")
					continue
				}
				want := m.Live[0]
				if rel == klevdb.OffsetNewest {
					want = m.Live[len(m.Live)-1]
				}
				if err != nil {
					r.violate("Get("+name+")|got="+errKind(err)+"|want=message"+stateTag(r), "Get(%s) on a log with %d live messages failed: %v (want %v)", name, len(m.Live), err, want)
					return
				}
				if !sameMsg(got, want) {
					r.violate("Get("+name+")|wrong-message"+stateTag(r), "Get(%s) returned %v, want %v", name, got, want)
					return
				}
			}
		},
	}
}

func resKind(err error) string {
	if err == nil {
		return "message"
	}
	return errKind(err)
}

// ---- C09: key lookups ----

func queryKeys(r *Run) [][]byte {
	ks := append([][]byte(nil), r.P.Cfg.KeySet...)
	// absent keys: partners of colliding keys in the set, and fresh ones
	for _, pr := range CollidingPairs() {
		for _, k := range r.P.Cfg.KeySet {
			if keyEq(k, pr[0]) {
				ks = append(ks, pr[1])
			}
			if keyEq(k, pr[1]) {
				ks = append(ks, pr[0])
			}
		}
	}
	ks = append(ks, []byte("absent-key"), []byte{0})
	// de-duplicate (nil == empty)
	var out [][]byte
	seen := map[string]int{}
	for _, k := range ks {
		if n := seen[string(k)]; n >= 1 && len(k) > 0 {
			continue
		} else if n >= 2 {
			continue
		}
		seen[string(k)]++
		out = append(out, k)
	}
	return out
}

func hooksC09() Hooks {
	return Hooks{
		AfterStep: func(r *Run, op *Op) {
			if !r.Deep {
				return
			}
			r.noteState()
			m := r.M
			for _, key := range queryKeys(r) {
				var gk klevdb.Message
				err := guard(func() error {
					var e error
					gk, e = r.L.GetByKey(key)
					return e
				})
				var ok2 int64
				err2 := guard(func() error {
					var e error
					ok2, e = r.L.OffsetByKey(key)
					return e
				})
				if !m.Keys {
					if classify(err) != ENoIndex || classify(err2) != ENoIndex {
						r.violate("GetByKey|no-index", "GetByKey/OffsetByKey without key index: want ErrNoIndex, got %v / %v", err, err2)
						return
					}
					_, _, err3 := consumeByKeyG(r.L, key, klevdb.OffsetOldest, 4)
					if classify(err3) != ENoIndex {
						r.violate("ConsumeByKey|no-index", "ConsumeByKey without key index: want ErrNoIndex, got %v", err3)
						return
					}
					r.probe("noindex_checked")
					continue
				}
				want, found := m.LastByKey(key)
				if found {
					if err != nil {
						r.violate("GetByKey|present|got="+errKind(err)+stateTag(r), "GetByKey(%x): want %v, got error %v", key, want, err)
						return
					}
					if g := fromK(gk); !sameMsg(g, want) {
						kind := "wrong-message"
						if !keyEq(g.Key, key) {
							kind = "other-key"
						} else if !m.IsLive(g.Off) {
							kind = "dead-message"
						} else if g.Off < want.Off {
							kind = "not-last"
						}
						r.violate("GetByKey|"+kind, "GetByKey(%x) returned %v, want %v", key, g, want)
						return
					}
					if err2 != nil || ok2 != want.Off {
						r.violate("OffsetByKey|present", "OffsetByKey(%x) = %d, %v; want %d", key, ok2, err2, want.Off)
						return
					}
				} else {
					if classify(err) != ENotFound {
						r.violate("GetByKey|absent|got="+resKind(err), "GetByKey(%x) of a key without live message: want ErrNotFound, got %v err=%v", key, fromK(gk), err)
						return
					}
					if classify(err2) != ENotFound {
						r.violate("OffsetByKey|absent|got="+resKind(err2), "OffsetByKey(%x): want ErrNotFound, got %d err=%v", key, ok2, err2)
						return
					}
					r.probe("absent_key_checked")
				}
				// key cursor from OffsetOldest and from sampled absolute offsets
				starts := []int64{klevdb.OffsetOldest, 0, m.Next}
				for i := 0; i < 3 && m.Next > 0; i++ {
					starts = append(starts, r.Obs.I64(0, m.Next))
				}
				for _, st := range starts {
					if !keyCursor(r, key, st) {
						return
					}
				}
			}
		},
	}
}

func consumeByKeyG(l klevdb.Log, key []byte, off, mc int64) (int64, []Msg, error) {
	var next int64
	var km []klevdb.Message
	err := guard(func() error {
		var e error
		next, km, e = l.ConsumeByKey(key, off, mc)
		return e
	})
	return next, fromKs(km), err
}

// keyCursor iterates ConsumeByKey from start and checks the C09 cursor clauses.
func keyCursor(r *Run, key []byte, start int64) bool {
	m := r.M
	want := m.Live
	if start >= 0 {
		want = m.From(start)
	}
	var wantK []Msg
	for _, x := range want {
		if keyEq(x.Key, key) {
			wantK = append(wantK, x)
		}
	}
	mc := int64(1 + r.Obs.Intn(5))
	off := start
	var seen []Msg
	bound := len(m.Live) + int(m.Next) + 6
	for calls := 0; ; calls++ {
		if calls > bound {
			r.violate("ConsumeByKey|no-termination", "ConsumeByKey(%x) from %d did not reach NextOffset within %d calls", key, start, bound)
			return false
		}
		next, msgs, err := consumeByKeyG(r.L, key, off, mc)
		if err != nil {
			r.violate("ConsumeByKey|error|"+errKind(err)+stateTag(r), "ConsumeByKey(%x,%d,%d) failed: %v", key, off, mc, err)
			return false
		}
		for i, g := range msgs {
			lw, live := m.Get(g.Off)
			switch {
			case !keyEq(g.Key, key):
				r.violate("ConsumeByKey|other-key", "ConsumeByKey(%x,%d) returned %v", key, off, g)
				return false
			case !live || !sameMsg(lw, g):
				r.violate("ConsumeByKey|dead-or-altered", "ConsumeByKey(%x,%d) returned %v, live there: %v (%v)", key, off, g, lw, live)
				return false
			case off >= 0 && g.Off < off:
				r.violate("ConsumeByKey|below-offset", "ConsumeByKey(%x,%d) returned offset %d", key, off, g.Off)
				return false
			case i > 0 && g.Off <= msgs[i-1].Off:
				r.violate("ConsumeByKey|order", "ConsumeByKey(%x,%d) returned %d after %d", key, off, g.Off, msgs[i-1].Off)
				return false
			}
		}
		seen = append(seen, msgs...)
		if len(msgs) == 0 {
			if off >= 0 && next == off {
				if next != m.Next {
					r.violate("ConsumeByKey|stopped-early"+stateTag(r), "ConsumeByKey(%x) iteration stopped at %d, NextOffset is %d", key, next, m.Next)
					return false
				}
				break
			}
			if next == m.Next {
				break
			}
			if off >= 0 && next < off {
				r.violate("ConsumeByKey|backwards", "ConsumeByKey(%x,%d) returned next=%d", key, off, next)
				return false
			}
		}
		if next < 0 {
			r.violate("ConsumeByKey|negative-next", "ConsumeByKey(%x,%d) returned next=%d", key, off, next)
			return false
		}
		off = next
	}
	if d := diffLive(seen, wantK); d != "" {
		r.violate("ConsumeByKey|iteration|"+diffKind(d), "ConsumeByKey(%x) iterated from %d: %s", key, start, d)
		return false
	}
	return true
}

// ---- C10: time lookups ----

func timeQueries(m *Model) []int64 {
	set := map[int64]bool{}
	add := func(t int64) {
		for d := int64(-2); d <= 2; d++ {
			set[t+d] = true
		}
	}
	for _, x := range m.Live {
		add(x.US)
	}
	// times of deleted messages are boundaries of the old layout
	for i, x := range m.Published {
		if i%3 == 0 || len(m.Published) < 60 {
			add(x.US)
		}
	}
	set[0] = true
	set[1<<60] = true
	if len(m.Live) > 0 {
		set[m.Live[0].US-1000000] = true
		set[m.Live[len(m.Live)-1].US+1000000] = true
	}
	out := make([]int64, 0, len(set))
	for t := range set {
		out = append(out, t)
	}
	sort.Slice(out, func(i, j int) bool { return out[i] < out[j] })
	return out
}

func hooksC10() Hooks {
	return Hooks{
		AfterStep: func(r *Run, op *Op) {
			if !r.Deep {
				return
			}
			m := r.M
			if m.Times && !m.Monotone {
				return // the property is stated for never-decreasing times only
			}
			r.noteState()
			for _, ts := range timeQueries(m) {
				var gm klevdb.Message
				err := guard(func() error {
					var e error
					gm, e = r.L.GetByTime(time.UnixMicro(ts))
					return e
				})
				var oo int64
				var ot time.Time
				err2 := guard(func() error {
					var e error
					oo, ot, e = r.L.OffsetByTime(time.UnixMicro(ts))
					return e
				})
				if !m.Times {
					if classify(err) != ENoIndex || classify(err2) != ENoIndex {
						r.violate("GetByTime|no-index", "GetByTime/OffsetByTime without time index: want ErrNoIndex, got %v / %v", err, err2)
						return
					}
					r.probe("noindex_checked")
					break
				}
				want, found := m.FirstAtOrAfter(ts)
				switch {
				case found:
					if err != nil {
						r.violate("GetByTime|present|got="+errKind(err)+stateTag(r), "GetByTime(%d): want %v, got error %v", ts, want, err)
						return
					}
					if g := fromK(gm); !sameMsg(g, want) {
						kind := "wrong-message"
						switch {
						case !m.IsLive(g.Off):
							kind = "dead-message"
						case g.US < ts:
							kind = "before-time"
						case g.Off > want.Off:
							kind = "not-first"
						}
						r.violate("GetByTime|"+kind+stateTag(r), "GetByTime(%d) returned %v, first live message at or after that time is %v", ts, g, want)
						return
					}
					if err2 != nil || oo != want.Off || ot.UnixMicro() != want.US {
						r.violate("OffsetByTime|present", "OffsetByTime(%d) = %d,%d,%v; want %d,%d", ts, oo, ot.UnixMicro(), err2, want.Off, want.US)
						return
					}
				case len(m.Live) == 0:
					c, c2 := classify(err), classify(err2)
					if (c != ENotFound && c != EInvalidOffset) || (c2 != ENotFound && c2 != EInvalidOffset) {
						r.violate("GetByTime|empty|got="+resKind(err), "GetByTime(%d) on a log without live messages: want ErrNotFound or ErrInvalidOffset, got %v err=%v / %v", ts, fromK(gm), err, err2)
						return
					}
					r.probe("empty_checked")
				default:
					if classify(err) != ENotFound {
						r.violate("GetByTime|after-all|got="+resKind(err)+stateTag(r), "GetByTime(%d), all live messages earlier: want ErrNotFound, got %v err=%v", ts, fromK(gm), err)
						return
					}
					if classify(err2) != ENotFound {
						r.violate("OffsetByTime|after-all|got="+resKind(err2)+stateTag(r), "OffsetByTime(%d): want ErrNotFound, got %d err=%v", ts, oo, err2)
						return
					}
				}
			}
			// equal stamps across a segment boundary?
			bases := segmentBases(r.Dir)
			for _, b := range bases[min(1, len(bases)):] {
				if x, ok := m.Get(b); ok {
					if i := m.find(b); i > 0 && m.Live[i-1].US == x.US {
						r.probe("equal_stamps_across_boundary")
					}
				}
			}
		},
	}
}
