package harness

// Fault selects one specific fault of engines K and D (replay files and minimised plans).
type Fault struct {
	Kind  string  `json:"kind"`            // K: crash, torn, powerloss; D: trunc, flip, overwrite, ...
	Step  int     `json:"step,omitempty"`  // K: index of the mutation the image is cut after
	Torn  int     `json:"torn,omitempty"`  // K: bytes of the torn append that survive
	Cuts  []int64 `json:"cuts,omitempty"`  // K power loss: per-file choice (permille between synced and full length)
	Step2 int     `json:"step2,omitempty"` // K depth 2: mutation of the recovery trace (0 = none)
	File  string  `json:"file,omitempty"`  // D: file name within the directory
	Pos   int64   `json:"pos,omitempty"`
	Len   int64   `json:"len,omitempty"`
	Data  []byte  `json:"data,omitempty"`
	Bit   int     `json:"bit,omitempty"`
	Mode  string  `json:"mode,omitempty"`
	Also  *Fault  `json:"also,omitempty"` // D: a second damage applied after this one (log and index both torn)
}

// SchedP are the scheduler parameters of an engine-S run.
type SchedP struct {
	Strategy   int     `json:"strategy"`
	PCTDepth   int     `json:"pct_depth,omitempty"`
	PCTLen     int     `json:"pct_len,omitempty"`
	HoldTask   int     `json:"hold_task,omitempty"`
	HoldYield  int     `json:"hold_yield,omitempty"`
	HoldTask2  int     `json:"hold_task2,omitempty"`
	HoldYield2 int     `json:"hold_yield2,omitempty"`
	Preempts   int     `json:"preempts,omitempty"`
	Race       bool    `json:"race,omitempty"`
	Decisions  []int32 `json:"decisions,omitempty"`
}

func (s *SchedP) fixAfterTaskRemoval(i int) {
	if s.HoldTask == i {
		s.HoldTask = 0
	} else if s.HoldTask > i {
		s.HoldTask--
	}
	if s.HoldTask2 == i {
		s.HoldTask2 = -1
	} else if s.HoldTask2 > i {
		s.HoldTask2--
	}
	s.Decisions = nil
}
