package sim

import (
	"runtime"
	"time"
)

// The simulated world of the run in progress. Plain words, only touched in //go:norace code.
var (
	active   bool
	clockUS  int64 // simulated wall clock, µs since the Unix epoch
	timers   []*timer
	timerSeq uint64
	rndState uint64
)

// Begin activates the simulation for one run. Called by the harness with no task running.
//
//go:norace
func Begin(seed uint64, startUS int64, cfg Config) *Sched {
	active = true
	clockUS = startUS
	timers = timers[:0]
	timerSeq = 0
	rndState = seed ^ 0xD1B54A32D192ED03
	cfg.Seed = seed
	S = NewSched(cfg)
	return S
}

// BeginInline activates the simulation with a single task that is the calling goroutine.
//
//go:norace
func BeginInline(seed uint64, startUS int64) *Sched {
	s := Begin(seed, startUS, Config{Strategy: StratSeq, MaxSteps: 1 << 60})
	id := s.AddTask("main")
	s.planned = 1
	s.prepare()
	s.cur = s.tasks[id]
	return s
}

// End deactivates the simulation; shims are pass-through afterwards.
//
//go:norace
func End() {
	if S != nil {
		S.Drain()
		S.MarkEnded()
	}
	active = false
	S = nil
	FS = nil
	timers = timers[:0]
}

//go:norace
func Active() bool { return active }

//go:norace
func NowUS() int64 { return clockUS }

//go:norace
func Now() time.Time { return time.UnixMicro(clockUS) }

//go:norace
func Advance(d time.Duration) { clockUS += int64(d / time.Microsecond) }

//go:norace
func SetClockUS(us int64) { clockUS = us }

//go:norace
func Rand64() uint64 {
	rndState += 0x9E3779B97F4A7C15
	z := rndState
	z = (z ^ (z >> 30)) * 0xBF58476D1CE4E5B9
	z = (z ^ (z >> 27)) * 0x94D049BB133111EB
	return z ^ (z >> 31)
}

// Yield is the scheduling point the shims call before an operation.
//
//go:norace
func Yield() {
	if s := S; s != nil {
		var pcs [1]uintptr
		runtime.Callers(3, pcs[:])
		s.Yield(pcs[0])
	}
}

// YieldAt is Yield with an explicit caller depth (for helpers that wrap shims).
//
//go:norace
func YieldAt(skip int) {
	if s := S; s != nil {
		var pcs [1]uintptr
		runtime.Callers(skip, pcs[:])
		s.Yield(pcs[0])
	}
}

//go:norace
func Blocked() {
	if s := S; s != nil {
		var pcs [1]uintptr
		runtime.Callers(3, pcs[:])
		s.Blocked(pcs[0])
	}
}

//go:norace
func Progress() {
	if s := S; s != nil {
		s.Progress()
	}
}

// TimerHandle lets the shim stop a timer.
type TimerHandle struct{ t *timer }

// AddTimer registers fire to be called when the simulated clock reaches now+d. fire runs on
// whichever task advances the clock and must not block.
//
//go:norace
func AddTimer(d time.Duration, fire func()) TimerHandle {
	timerSeq++
	us := int64(d / time.Microsecond)
	if us < 0 {
		us = 0
	}
	t := &timer{at: clockUS + us, seq: timerSeq, fire: fire}
	timers = append(timers, t)
	return TimerHandle{t}
}

//go:norace
func (h TimerHandle) Stop() bool {
	if h.t == nil || h.t.dead {
		return false
	}
	h.t.dead = true
	return true
}

//go:norace
func PendingTimers() int {
	n := 0
	for _, t := range timers {
		if !t.dead {
			n++
		}
	}
	return n
}

// fireNextTimer jumps the clock to the earliest pending timer and fires it (and every timer
// with the same deadline). Reports whether anything fired.
//
//go:norace
func fireNextTimer() bool {
	var best *timer
	for _, t := range timers {
		if t.dead {
			continue
		}
		if best == nil || t.at < best.at || (t.at == best.at && t.seq < best.seq) {
			best = t
		}
	}
	if best == nil {
		timers = timers[:0]
		return false
	}
	if best.at > clockUS {
		clockUS = best.at
	}
	best.dead = true
	best.fire()
	return true
}

// FireDue fires all timers whose deadline is not after the current simulated time. The
// harness calls it after advancing the clock by hand.
//
//go:norace
func FireDue() {
	for {
		var best *timer
		for _, t := range timers {
			if t.dead || t.at > clockUS {
				continue
			}
			if best == nil || t.at < best.at || (t.at == best.at && t.seq < best.seq) {
				best = t
			}
		}
		if best == nil {
			return
		}
		best.dead = true
		best.fire()
	}
}
