package sim

// File-system trace: every successful mutating call that goes through the simos shim is
// appended here (engines K and the disk-model self-check). Not used in multi-task runs.

const (
	EvOpen      = iota + 1 // fd bound to path; Created / Truncated say whether it mutated
	EvWrite                // Data written at Off (Off = -1: append)
	EvTruncate             // file of Fd (or Path when Fd < 0) cut/extended to Len
	EvFsync                // fsync of a regular file
	EvFsyncDir             // fsync of a directory
	EvRename               // Path -> Path2
	EvRemove               // Path
	EvRemoveAll            // Path
	EvMkdir                // Path
	EvLink                 // Path -> Path2 (hard link)
	EvChtimes              // Path (metadata only; recorded, not a crash point of interest)
	EvClose                // Fd closed (not a mutation)
)

type FSEvent struct {
	Kind      int
	Op        int32 // harness operation in progress
	Sub       int32 // harness sub-operation (inner Delete of a multi-delete helper), 0 if none
	Fd        int32
	Path      string
	Path2     string
	Off       int64
	Len       int64
	Data      []byte
	Created   bool
	Truncated bool
	Append    bool
	Stamp     int64 // global step counter when the event happened (multi-task runs)
}

// Mutation reports whether the event changed the persistent state (is a crash point).
func (e *FSEvent) Mutation() bool {
	switch e.Kind {
	case EvOpen:
		return e.Created || e.Truncated
	case EvClose:
		return false
	}
	return true
}

type FSTrace struct {
	Events []FSEvent
	CurOp  int32
	CurSub int32
	nextFd int32
	Stamp  func() int64 // optional: stamps events (multi-task runs under the plain build only)
}

// FS is the recorder of the run in progress (nil: no recording).
var FS *FSTrace

func NewFSTrace() *FSTrace { return &FSTrace{} }

func (t *FSTrace) NewFd() int32 {
	t.nextFd++
	return t.nextFd
}

func (t *FSTrace) Add(e FSEvent) {
	e.Op = t.CurOp
	e.Sub = t.CurSub
	if t.Stamp != nil {
		e.Stamp = t.Stamp()
	}
	t.Events = append(t.Events, e)
}
