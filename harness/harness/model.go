package harness

import (
	"bytes"
	"errors"
	"fmt"
	"sort"

	"github.com/klev-dev/klevdb"
)

// Msg is a message of the reference model. nil and empty byte slices are the same value;
// times are microseconds since the Unix epoch.
type Msg struct {
	Off int64
	US  int64
	Key []byte
	Val []byte
}

func (m Msg) String() string {
	return fmt.Sprintf("{off=%d us=%d key=%x val=%s}", m.Off, m.US, m.Key, short(m.Val))
}

func short(b []byte) string {
	if len(b) <= 12 {
		return fmt.Sprintf("%x", b)
	}
	return fmt.Sprintf("%x..(%d)", b[:8], len(b))
}

func sameMsg(a, b Msg) bool {
	return a.Off == b.Off && a.US == b.US && bytes.Equal(a.Key, b.Key) && bytes.Equal(a.Val, b.Val)
}

func fromK(m klevdb.Message) Msg {
	return Msg{Off: m.Offset, US: m.Time.UnixMicro(), Key: m.Key, Val: m.Value}
}

func fromKs(ms []klevdb.Message) []Msg {
	out := make([]Msg, len(ms))
	for i, m := range ms {
		out[i] = fromK(m)
	}
	return out
}

// Model is the sequential specification of the log: a list of live messages and the next
// offset. It knows nothing about segments.
type Model struct {
	Live     []Msg
	Next     int64
	Keys     bool
	Times    bool
	Monotone bool  // all times ever published were non-decreasing with offset
	MaxUS    int64 // greatest time ever published
	HasAny   bool  // something was ever published
	// Published keeps every message ever published (for "differs from the one published at
	// that offset" checks); index = offset.
	Published []Msg
}

func NewModel(keys, times bool) *Model {
	return &Model{Keys: keys, Times: times, Monotone: true}
}

func (m *Model) Clone() *Model {
	c := *m
	c.Live = append([]Msg(nil), m.Live...)
	c.Published = append([]Msg(nil), m.Published...)
	return &c
}

// Publish appends messages whose times are already resolved.
func (m *Model) Publish(msgs []Msg) {
	for i := range msgs {
		msgs[i].Off = m.Next
		if m.HasAny && msgs[i].US < m.MaxUS {
			m.Monotone = false
		}
		if !m.HasAny || msgs[i].US > m.MaxUS {
			m.MaxUS = msgs[i].US
		}
		m.HasAny = true
		m.Live = append(m.Live, msgs[i])
		m.Published = append(m.Published, msgs[i])
		m.Next++
	}
}

func (m *Model) find(off int64) int {
	i := sort.Search(len(m.Live), func(i int) bool { return m.Live[i].Off >= off })
	if i < len(m.Live) && m.Live[i].Off == off {
		return i
	}
	return -1
}

func (m *Model) IsLive(off int64) bool { return m.find(off) >= 0 }

func (m *Model) Get(off int64) (Msg, bool) {
	if i := m.find(off); i >= 0 {
		return m.Live[i], true
	}
	return Msg{}, false
}

// Remove deletes the given offsets from the live list (those that are live).
func (m *Model) Remove(offs map[int64]bool) {
	out := m.Live[:0:0]
	for _, x := range m.Live {
		if !offs[x.Off] {
			out = append(out, x)
		}
	}
	m.Live = out
}

// From returns the live messages with offset >= off.
func (m *Model) From(off int64) []Msg {
	i := sort.Search(len(m.Live), func(i int) bool { return m.Live[i].Off >= off })
	return m.Live[i:]
}

func keyEq(a, b []byte) bool { return bytes.Equal(a, b) }

func (m *Model) LastByKey(key []byte) (Msg, bool) {
	for i := len(m.Live) - 1; i >= 0; i-- {
		if keyEq(m.Live[i].Key, key) {
			return m.Live[i], true
		}
	}
	return Msg{}, false
}

func (m *Model) KeyMatchesFrom(key []byte, off int64) []Msg {
	var out []Msg
	for _, x := range m.From(off) {
		if keyEq(x.Key, key) {
			out = append(out, x)
		}
	}
	return out
}

// FirstAtOrAfter returns the live message with the smallest offset whose time is >= us.
func (m *Model) FirstAtOrAfter(us int64) (Msg, bool) {
	for _, x := range m.Live {
		if x.US >= us {
			return x, true
		}
	}
	return Msg{}, false
}

// ---- error classes ----

type ErrClass int

const (
	EOK ErrClass = iota
	ENotFound
	EInvalidOffset
	ENoIndex
	EReadonly
	EOther
)

func (c ErrClass) String() string {
	switch c {
	case EOK:
		return "ok"
	case ENotFound:
		return "ErrNotFound"
	case EInvalidOffset:
		return "ErrInvalidOffset"
	case ENoIndex:
		return "ErrNoIndex"
	case EReadonly:
		return "ErrReadonly"
	}
	return "other-error"
}

func classify(err error) ErrClass {
	switch {
	case err == nil:
		return EOK
	case errors.Is(err, klevdb.ErrNoIndex):
		return ENoIndex
	case errors.Is(err, klevdb.ErrReadonly):
		return EReadonly
	case errors.Is(err, klevdb.ErrNotFound):
		return ENotFound
	case errors.Is(err, klevdb.ErrInvalidOffset):
		return EInvalidOffset
	}
	return EOther
}

func errStr(err error) string {
	if err == nil {
		return "<nil>"
	}
	return err.Error()
}
