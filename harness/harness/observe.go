package harness

import (
	"fmt"
	"sort"
	"strings"
	"time"

	"github.com/klev-dev/klevdb"
)

// ObsQ fixes the queries of an observation so that two observations are comparable.
type ObsQ struct {
	Next     int64
	Keys     [][]byte
	Times    []int64
	MaxCnt   int64
	Order    []int // permutation of the groups
	Stat     bool
	StatSize bool
}

// Obs is the structural result of the observation battery (DESIGN.md 3.8): one canonical
// line per call, errors by class.
type Obs struct {
	G map[string][]string
}

func resStr(m Msg, err error) string {
	if err != nil {
		return classify(err).String()
	}
	return m.String()
}

func (r *Run) obsQ(stat, statSize bool) *ObsQ {
	q := &ObsQ{Next: r.M.Next, Keys: queryKeys(r), MaxCnt: int64(1 + r.Obs.Intn(40)), Stat: stat, StatSize: statSize}
	ts := timeQueries(r.M)
	if len(ts) > 60 {
		// sample, keep the ends
		var s []int64
		for i := 0; i < 60; i++ {
			s = append(s, ts[i*len(ts)/60])
		}
		ts = s
	}
	q.Times = ts
	if r.M.Times && !r.M.Monotone {
		// time lookups are only specified for never-decreasing message times (C10, C11)
		q.Times = nil
	}
	q.Order = []int{0, 1, 2, 3, 4, 5}
	for i := len(q.Order) - 1; i > 0; i-- {
		j := r.Obs.Intn(i + 1)
		q.Order[i], q.Order[j] = q.Order[j], q.Order[i]
	}
	return q
}

// Observe runs the battery. The order of the groups comes from the query (seeded), so an
// answer that depends on which lazily loaded reader was touched first shows up.
func Observe(l klevdb.Log, q *ObsQ) *Obs {
	o := &Obs{G: map[string][]string{}}
	add := func(g, s string) { o.G[g] = append(o.G[g], s) }
	for _, grp := range q.Order {
		switch grp {
		case 0:
			var n int64
			err := guard(func() error {
				var e error
				n, e = l.NextOffset()
				return e
			})
			add("next", fmt.Sprintf("NextOffset=%d %s", n, classify(err)))
		case 1:
			msgs, fin, diag := scanLog(l, q.MaxCnt, int(q.Next)*2+50)
			add("scan", fmt.Sprintf("end=%d diag=%s", fin, diagClass(diag)))
			for _, m := range msgs {
				add("scan", m.String())
			}
		case 2:
			for off := int64(0); off <= q.Next+2; off++ {
				m, err := getG(l, off)
				add("get", fmt.Sprintf("Get(%d)=%s", off, resStr(m, err)))
			}
			for _, rel := range []int64{klevdb.OffsetOldest, klevdb.OffsetNewest} {
				m, err := getG(l, rel)
				add("get", fmt.Sprintf("Get(%d)=%s", rel, resStr(m, err)))
			}
		case 3:
			for _, k := range q.Keys {
				var gm klevdb.Message
				err := guard(func() error {
					var e error
					gm, e = l.GetByKey(k)
					return e
				})
				add("key", fmt.Sprintf("GetByKey(%x)=%s", k, resStr(fromK(gm), err)))
				var off int64
				err = guard(func() error {
					var e error
					off, e = l.OffsetByKey(k)
					return e
				})
				if err != nil {
					off = 0
				}
				add("key", fmt.Sprintf("OffsetByKey(%x)=%d %s", k, off, classify(err)))
				// key cursor from the start
				cur := klevdb.OffsetOldest
				for calls := 0; calls < int(q.Next)+8; calls++ {
					next, msgs, err := consumeByKeyG(l, k, cur, 3)
					if err != nil {
						add("key", fmt.Sprintf("ConsumeByKey(%x)@%d=%s", k, cur, classify(err)))
						break
					}
					for _, m := range msgs {
						add("key", fmt.Sprintf("ConsumeByKey(%x): %s", k, m))
					}
					if len(msgs) == 0 && (next == cur || next == q.Next) {
						add("key", fmt.Sprintf("ConsumeByKey(%x) end=%d", k, next))
						break
					}
					cur = next
				}
			}
		case 4:
			for _, ts := range q.Times {
				var gm klevdb.Message
				err := guard(func() error {
					var e error
					gm, e = l.GetByTime(time.UnixMicro(ts))
					return e
				})
				add("time", fmt.Sprintf("GetByTime(%d)=%s", ts, resStr(fromK(gm), err)))
			}
		case 5:
			if !q.Stat {
				continue
			}
			var st klevdb.Stats
			err := guard(func() error {
				var e error
				st, e = l.Stat()
				return e
			})
			if err != nil {
				add("stat", "Stat="+classify(err).String())
			} else if q.StatSize {
				add("stat", fmt.Sprintf("Stat=messages:%d segments:%d size:%d", st.Messages, st.Segments, st.Size))
			} else {
				add("stat", fmt.Sprintf("Stat=messages:%d segments:%d", st.Messages, st.Segments))
			}
		}
	}
	return o
}

func diagClass(d string) string {
	if d == "" {
		return "ok"
	}
	return scanDiagKind(d)
}

// DiffObs returns "" if the observations agree, else (group, description of the first
// difference).
func DiffObs(a, b *Obs) (string, string) {
	var groups []string
	for g := range a.G {
		groups = append(groups, g)
	}
	for g := range b.G {
		if _, ok := a.G[g]; !ok {
			groups = append(groups, g)
		}
	}
	sort.Strings(groups)
	for _, g := range groups {
		x, y := a.G[g], b.G[g]
		for i := 0; i < len(x) || i < len(y); i++ {
			var sx, sy string
			if i < len(x) {
				sx = x[i]
			}
			if i < len(y) {
				sy = y[i]
			}
			if sx != sy {
				return g, fmt.Sprintf("%q vs %q", sx, sy)
			}
		}
	}
	return "", ""
}

// callName extracts the call name of an observation line for signatures.
func callName(line string) string {
	if i := strings.IndexAny(line, "(="); i > 0 {
		return line[:i]
	}
	return line
}

// CheckObsAgainstModel verifies that an observation is what the model predicts for the
// deterministic parts (scan, next, gets). Used where the observation itself must be right,
// not merely equal to another one (C05, C19).
func CheckObsAgainstModel(o *Obs, m *Model) (string, string) {
	want := []string{fmt.Sprintf("end=%d diag=ok", m.Next)}
	for _, x := range m.Live {
		want = append(want, x.String())
	}
	got := o.G["scan"]
	for i := 0; i < len(want) || i < len(got); i++ {
		var w, g string
		if i < len(want) {
			w = want[i]
		}
		if i < len(got) {
			g = got[i]
		}
		if w != g {
			return "scan", fmt.Sprintf("scan shows %q, model has %q", g, w)
		}
	}
	if n := o.G["next"]; len(n) == 1 && n[0] != fmt.Sprintf("NextOffset=%d ok", m.Next) {
		return "next", fmt.Sprintf("%s, model has %d", n[0], m.Next)
	}
	gets := o.G["get"]
	for i, line := range gets {
		off := int64(i)
		if off > m.Next+2 {
			break
		}
		var w string
		if x, ok := m.Get(off); ok {
			w = fmt.Sprintf("Get(%d)=%s", off, x)
		} else if off < m.Next {
			w = fmt.Sprintf("Get(%d)=%s", off, ENotFound)
		} else {
			w = fmt.Sprintf("Get(%d)=%s", off, EInvalidOffset)
		}
		if line != w {
			return "get", fmt.Sprintf("%q, model predicts %q", line, w)
		}
	}
	return "", ""
}
