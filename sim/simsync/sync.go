// Package simsync replaces package sync in the instrumented copy. Each primitive wraps the
// real one: the real primitive is still taken (so the race detector sees the true
// happens-before edges of the code under test) but never blocks the OS thread, because a
// task polls with TryLock and reports "blocked" to the scheduler instead.
package simsync

import (
	stdsync "sync"
	stdatomic "sync/atomic"

	"github.com/klev-dev/klevdb/verifsim/sim"
)

type Mutex struct {
	mu stdsync.Mutex
}

func (m *Mutex) Lock() {
	if !sim.Active() {
		m.mu.Lock()
		return
	}
	sim.Yield()
	if m.mu.TryLock() {
		return
	}
	for !m.mu.TryLock() {
		sim.Blocked()
	}
	sim.Progress()
}

func (m *Mutex) TryLock() bool {
	sim.Yield()
	return m.mu.TryLock()
}

func (m *Mutex) Unlock() {
	sim.Yield()
	m.mu.Unlock()
}

// RWMutex models Go's writer preference: while a task is parked in Lock, new RLock calls
// report "blocked" too, so the simulation admits no order the runtime forbids.
type RWMutex struct {
	mu             stdsync.RWMutex
	writersWaiting int32 // only touched by the running task (serialized); plain on purpose
}

//go:norace
func (rw *RWMutex) ww() int32 { return rw.writersWaiting }

//go:norace
func (rw *RWMutex) wwAdd(d int32) { rw.writersWaiting += d }

func (rw *RWMutex) Lock() {
	if !sim.Active() {
		rw.mu.Lock()
		return
	}
	sim.Yield()
	if rw.mu.TryLock() {
		return
	}
	rw.wwAdd(1)
	for !rw.mu.TryLock() {
		sim.Blocked()
	}
	rw.wwAdd(-1)
	sim.Progress()
}

func (rw *RWMutex) TryLock() bool {
	sim.Yield()
	return rw.mu.TryLock()
}

func (rw *RWMutex) Unlock() {
	sim.Yield()
	rw.mu.Unlock()
}

func (rw *RWMutex) RLock() {
	if !sim.Active() {
		rw.mu.RLock()
		return
	}
	sim.Yield()
	if rw.ww() == 0 && rw.mu.TryRLock() {
		return
	}
	for rw.ww() > 0 || !rw.mu.TryRLock() {
		sim.Blocked()
	}
	sim.Progress()
}

func (rw *RWMutex) TryRLock() bool {
	sim.Yield()
	if sim.Active() && rw.ww() > 0 {
		return false
	}
	return rw.mu.TryRLock()
}

func (rw *RWMutex) RUnlock() {
	sim.Yield()
	rw.mu.RUnlock()
}

func (rw *RWMutex) RLocker() Locker { return (*rlocker)(rw) }

type rlocker RWMutex

func (r *rlocker) Lock()   { (*RWMutex)(r).RLock() }
func (r *rlocker) Unlock() { (*RWMutex)(r).RUnlock() }

// WaitGroup: the real one carries the happens-before edges, a shadow counter drives polling.
type WaitGroup struct {
	wg stdsync.WaitGroup
	n  stdatomic.Int64
}

func (wg *WaitGroup) Add(delta int) {
	sim.Yield()
	wg.n.Add(int64(delta))
	wg.wg.Add(delta)
}

func (wg *WaitGroup) Done() { wg.Add(-1) }

func (wg *WaitGroup) Wait() {
	if !sim.Active() {
		wg.wg.Wait()
		return
	}
	sim.Yield()
	for wg.n.Load() > 0 {
		sim.Blocked()
	}
	wg.wg.Wait()
	sim.Progress()
}

func (wg *WaitGroup) Go(f func()) {
	wg.Add(1)
	go func() {
		defer wg.Done()
		f()
	}()
}

type Once struct {
	m    Mutex
	done stdatomic.Uint32
}

func (o *Once) Do(f func()) {
	if o.done.Load() == 1 {
		return
	}
	o.m.Lock()
	defer o.m.Unlock()
	if o.done.Load() == 0 {
		defer o.done.Store(1)
		f()
	}
}

func OnceFunc(f func()) func() {
	var once Once
	return func() { once.Do(f) }
}

func OnceValue[T any](f func() T) func() T {
	var once Once
	var v T
	return func() T {
		once.Do(func() { v = f() })
		return v
	}
}

func OnceValues[T1, T2 any](f func() (T1, T2)) func() (T1, T2) {
	var once Once
	var v1 T1
	var v2 T2
	return func() (T1, T2) {
		once.Do(func() { v1, v2 = f() })
		return v1, v2
	}
}

// Cond: Wait releases L, polls a generation counter, re-acquires L.
type Cond struct {
	L   Locker
	gen stdatomic.Uint64
	// waiters hold tickets; Signal lets the oldest ticket through, Broadcast all of them
	next    stdatomic.Uint64
	allowed stdatomic.Uint64
}

func NewCond(l Locker) *Cond { return &Cond{L: l} }

func (c *Cond) Wait() {
	ticket := c.next.Add(1)
	c.L.Unlock()
	sim.Yield()
	for c.allowed.Load() < ticket {
		sim.Blocked()
	}
	sim.Progress()
	c.L.Lock()
}

func (c *Cond) Signal() {
	sim.Yield()
	if c.allowed.Load() < c.next.Load() {
		c.allowed.Add(1)
	}
}

func (c *Cond) Broadcast() {
	sim.Yield()
	c.allowed.Store(c.next.Load())
}
