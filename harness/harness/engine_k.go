package harness

import (
	"fmt"
	"os"
	"path/filepath"
	"sort"
	"strings"

	"github.com/klev-dev/klevdb"
	"github.com/klev-dev/klevdb/verifsim/refcodec"
	"github.com/klev-dev/klevdb/verifsim/sim"
)

// recLog wraps the Log handed to the multi-delete helpers so that the boundaries and the
// results of their inner Delete calls are known (sub-operations of the FS trace).
type recLog struct {
	klevdb.Log
	r *Run
}

func (l *recLog) Delete(offsets map[int64]struct{}) ([]klevdb.Message, int64, error) {
	k, _ := l.r.Ctx["krec"].(*kRec)
	if k != nil {
		k.sub++
		if fs := sim.FS; fs != nil {
			fs.CurSub = int32(2*k.sub - 1)
		}
	}
	msgs, sz, err := l.Log.Delete(offsets)
	if k != nil {
		var offs []int64
		for _, m := range msgs {
			offs = append(offs, m.Offset)
		}
		k.subs = append(k.subs, offs)
		if fs := sim.FS; fs != nil {
			fs.CurSub = int32(2 * k.sub)
		}
	}
	return msgs, sz, err
}

type opRec struct {
	Kind    string
	Before  *Model
	After   *Model
	Batch   []Msg
	Subs    [][]int64
	WBefore int64
	WMid    int64 // reopen: after Close returned
	WAfter  int64
	Opts    OpenOpts
}

type kRec struct {
	ops  []opRec
	sub  int
	subs [][]int64
	w    int64
}

type variant struct {
	Live []Msg
	Next int64
	Name string
}

type crashPoint struct {
	Mut    int // 1-based index among mutation events
	Ev     int // index into the event list
	Torn   int // 0 = whole event applied
	Op     int
	Last   bool // last mutation of its operation
	Sub    int32
	EvName string
	Ev2    string // depth 2: the recovery step the second crash follows
}

func hooksK() Hooks {
	h := Hooks{}
	h.OpDone = func(r *Run, i int, op *Op) {
		k := r.Ctx["krec"].(*kRec)
		prev := k.ops[len(k.ops)-1]
		rec := opRec{Kind: op.K, Before: prev.After, After: r.M.Clone(), Subs: k.subs, WBefore: k.w, Opts: r.OOpts}
		if op.K == "pub" {
			rec.Batch = append([]Msg(nil), r.M.Published[len(prev.After.Published):]...)
		}
		rec.WMid = k.w
		if !r.stopped() {
			switch op.K {
			case "sync":
				if v, ok := r.Ctx["last_sync"].(int64); ok && v > k.w {
					k.w = v
				}
			case "pub":
				if r.OOpts.AutoSync && r.M.Next > k.w {
					k.w = r.M.Next
				}
			case "reopen":
				// Close returned inside the operation
				rec.WMid = prev.After.Next
				if rec.WMid < k.w {
					rec.WMid = k.w
				}
				k.w = rec.WMid
			}
		}
		rec.WAfter = k.w
		k.ops = append(k.ops, rec)
		k.sub, k.subs = 0, nil
	}
	return h
}

// runPlanK executes a workload under the FS tap and then evaluates crash images.
func runPlanK(def *PropDef, p *Plan, scratch string) *RunResult {
	if len(p.Tasks) > 0 {
		return runPlanC06Conc(def, p, scratch)
	}
	base := filepath.Join(scratch, fmt.Sprintf("r%d", p.Run))
	_ = os.RemoveAll(base)
	defer os.RemoveAll(base)
	r := NewRun(p, base, hooksK())
	k := &kRec{}
	r.Ctx["krec"] = k
	r.Wrap = func(l klevdb.Log) klevdb.Log { return &recLog{Log: l, r: r} }
	empty := NewModel(p.Cfg.Keys, p.Cfg.Times)
	k.ops = append(k.ops, opRec{Kind: "open", Before: empty, After: empty.Clone(), Opts: p.Cfg.Open})

	sim.BeginInline(p.Seed, p.Cfg.StartUS)
	tr := sim.NewFSTrace()
	sim.FS = tr
	r.ExecOps()
	// final close = one more operation
	k.ops = append(k.ops, opRec{Kind: "close", Before: r.M.Clone(), After: r.M.Clone(), WBefore: k.w, WMid: k.w, WAfter: r.M.Next, Opts: r.OOpts})
	lastClockUS = sim.NowUS()
	sim.FS = nil
	sim.End()

	res := &RunResult{Run: p.Run, Seed: p.Seed, Probes: r.Probes, Steps: len(p.Ops), Digest: r.digest, Faults: map[string]int{}}
	res.SimUS = lastClockUS - p.Cfg.StartUS
	if r.Viol != nil || r.Abort != "" {
		// the fault-free workload itself did not complete: not a crash-consistency verdict
		res.Abort = "workload: " + r.Abort
		if r.Viol != nil {
			res.Abort = "workload: " + r.Viol.Msg
		}
		res.Evals = 1
		return res
	}
	events := tr.Events
	// disk-model self check
	full := NewDisk()
	for i := range events {
		full.Apply(&events[i])
	}
	if d := full.SelfCheck(r.Dir); d != "" {
		res.Infra = "disk model self-check failed (a write bypassed the seam?): " + d
		return res
	}
	// digest the trace shape for the determinism check
	for i := range events {
		e := &events[i]
		r.logf("fs %d %s op=%d sub=%d n=%d", e.Kind, fileClass(e.Path), e.Op, e.Sub, len(e.Data))
	}
	res.Digest = r.digest

	// crash points
	var muts []int
	for i := range events {
		if events[i].Mutation() && strings.HasPrefix(events[i].Path, r.Dir) {
			muts = append(muts, i)
		}
	}
	lastOfOp := map[int32]int{}
	for _, i := range muts {
		lastOfOp[events[i].Op] = i
	}
	var points []crashPoint
	for m, i := range muts {
		e := &events[i]
		op := int(e.Op)
		if op >= len(k.ops) {
			op = len(k.ops) - 1
		}
		points = append(points, crashPoint{Mut: m + 1, Ev: i, Op: op, Last: lastOfOp[e.Op] == i, Sub: e.Sub, EvName: evName(e)})
	}
	ke := &kEval{def: def, r: r, k: k, events: events, plan: p, res: res, rng: NewRng(Mix(p.Seed, 77)), base: base, sigSeen: map[string]bool{}, stateSeen: map[string]bool{}}
	ke.run(points)
	var names []string
	for i, pt := range points {
		if i >= 25 {
			names = append(names, fmt.Sprintf("... %d more", len(points)-i))
			break
		}
		names = append(names, fmt.Sprintf("%d:%s(op %d %s)", pt.Mut, pt.EvName, pt.Op, k.ops[pt.Op].Kind))
	}
	res.Extra = map[string]any{"fs_mutations_of_the_run": len(points), "crash_points": names, "images_evaluated": ke.evals, "faults": res.Faults}
	res.Evals = ke.evals
	if res.Evals == 0 {
		res.Evals = 1
	}
	for s := range ke.stateSeen {
		res.Sigs = append(res.Sigs, s)
	}
	sort.Strings(res.Sigs)
	return res
}

type kEval struct {
	def       *PropDef
	r         *Run
	k         *kRec
	events    []sim.FSEvent
	plan      *Plan
	res       *RunResult
	rng       *Rng
	base      string
	evals     int
	sigSeen   map[string]bool
	stateSeen map[string]bool
	imgN      int
	curPt     int  // crash point under evaluation (mutation index + torn bytes)
	overlap   bool // the image under evaluation holds two segment files with a common offset
}

// overlappingSegments reports whether two log files of the directory hold the same offset
// (the state a crash between "rename the rebased rewrite in" and "remove the old segment"
// leaves behind).
func overlappingSegments(dir string) bool {
	seen := map[int64]bool{}
	for _, sg := range readSegments(dir) {
		_, recs, _, _, err := refcodec.DecodeLog(sg.Log, sg.Base)
		if err != nil {
			continue
		}
		for _, rc := range recs {
			if seen[rc.Off] {
				return true
			}
			seen[rc.Off] = true
		}
	}
	return false
}

func (ke *kEval) run(points []crashPoint) {
	p := ke.plan
	// thorough tier: every second run goes deep (up to 400 crash points, every torn byte count
	// of short appends), the others sample like the quick tier so that the budget also buys
	// many different workloads
	thorough := p.Tier == "thorough" && p.Run%2 == 0
	// replay of one specific fault
	if f := p.Fault; f != nil {
		for _, pt := range points {
			if pt.Mut == f.Step {
				pt.Torn = f.Torn
				ke.evalPoint(pt, f)
				return
			}
		}
		return
	}
	// selection
	sel := map[int]bool{}
	maxPts := 70
	if thorough {
		maxPts = 400
	}
	if len(points) <= maxPts {
		for i := range points {
			sel[i] = true
		}
	} else {
		// all points inside deletes / reopens / the last of each op, then a seeded sample
		var rest []int
		for i, pt := range points {
			kind := ke.k.ops[pt.Op].Kind
			if (kind == "del" || kind == "delmulti" || kind == "reopen" || kind == "kill") && len(sel) < maxPts*2/3 {
				sel[i] = true
			} else {
				rest = append(rest, i)
			}
		}
		for len(sel) < maxPts && len(rest) > 0 {
			j := ke.rng.Intn(len(rest))
			sel[rest[j]] = true
			rest = append(rest[:j], rest[j+1:]...)
		}
	}
	idx := make([]int, 0, len(sel))
	for i := range sel {
		idx = append(idx, i)
	}
	sort.Ints(idx)
	maxEvals := 1 << 30
	if thorough {
		maxEvals = 4000 // bound the work of one run (torn variants at every byte count multiply quickly)
	}
	for _, i := range idx {
		if ke.evals > maxEvals {
			break
		}
		pt := points[i]
		ke.evalPoint(pt, nil)
		// torn variants of appends
		e := &ke.events[pt.Ev]
		if e.Kind == sim.EvWrite && !(len(e.Data) == 8 && hasFileHeader(e.Data)) && len(e.Data) > 1 {
			b := len(e.Data)
			var ts []int
			if thorough && b <= 96 {
				for t := 1; t < b; t++ {
					ts = append(ts, t)
				}
			} else {
				for _, t := range []int{1, 8, 27, 28, 29, b / 2, b - 1} {
					if t >= 1 && t < b {
						ts = append(ts, t)
					}
				}
				if !thorough && len(ts) > 3 {
					// sample three per append in the quick tier
					for len(ts) > 3 {
						j := ke.rng.Intn(len(ts))
						ts = append(ts[:j], ts[j+1:]...)
					}
				}
			}
			seen := map[int]bool{}
			for _, t := range ts {
				if seen[t] {
					continue
				}
				seen[t] = true
				tp := pt
				tp.Torn = t
				tp.Last = false
				ke.evalPoint(tp, nil)
			}
		}
	}
}

// diskAt replays the trace up to (and including) event index ev; torn > 0 applies only the
// first torn bytes of that event.
func (ke *kEval) diskAt(ev, torn int) *Disk {
	d := NewDisk()
	for i := 0; i <= ev; i++ {
		e := ke.events[i]
		if i == ev && torn > 0 {
			e.Data = e.Data[:torn]
		}
		d.Apply(&e)
	}
	return d
}

func (ke *kEval) variants(pt crashPoint) ([]variant, int64) {
	op := ke.k.ops[pt.Op]
	if pt.Last && pt.Torn == 0 {
		// the operation may have returned: its full effect is required
		return []variant{{Live: op.After.Live, Next: op.After.Next, Name: "after"}}, op.WAfter
	}
	w := op.WBefore
	var vs []variant
	switch op.Kind {
	case "pub":
		for n := 0; n <= len(op.Batch); n++ {
			live := append(append([]Msg(nil), op.Before.Live...), op.Batch[:n]...)
			vs = append(vs, variant{Live: live, Next: op.Before.Next + int64(n), Name: fmt.Sprintf("batch-prefix-%d", n)})
		}
	case "del", "delmulti":
		s := int(pt.Sub)
		done := s / 2
		mk := func(n int, name string) variant {
			m := op.Before.Clone()
			rm := map[int64]bool{}
			for j := 0; j < n && j < len(op.Subs); j++ {
				for _, o := range op.Subs[j] {
					rm[o] = true
				}
			}
			m.Remove(rm)
			return variant{Live: m.Live, Next: m.Next, Name: name}
		}
		vs = append(vs, mk(done, fmt.Sprintf("deletes-done-%d", done)))
		if s%2 == 1 {
			vs = append(vs, mk(done+1, fmt.Sprintf("deletes-done-%d", done+1)))
		}
	case "reopen":
		if pt.Sub >= 1 {
			w = op.WMid
		}
		vs = append(vs, variant{Live: op.Before.Live, Next: op.Before.Next, Name: "unchanged"})
	default:
		vs = append(vs, variant{Live: op.Before.Live, Next: op.Before.Next, Name: "unchanged"})
	}
	return vs, w
}

func (ke *kEval) imgDir() string {
	ke.imgN++
	return filepath.Join(ke.base, fmt.Sprintf("img%d", ke.imgN))
}

func (ke *kEval) report(pt crashPoint, f *Fault, symptom, format string, a ...any) {
	op := ke.k.ops[pt.Op]
	in := op.Kind
	if in == "del" || in == "delmulti" {
		in = "delete"
	}
	if pt.Last && pt.Torn == 0 {
		in += "(completed)"
	}
	kind := "crash"
	if f.Kind != "" {
		kind = f.Kind
	}
	if ke.overlap {
		switch {
		case strings.HasPrefix(symptom, "views-disagree"), symptom == "not-a-prefix", symptom == "in-between", symptom == "duplicate-or-disorder":
			symptom = "overlapping-segments"
		}
	}
	sig := fmt.Sprintf("%s|%s|in=%s|last=%s|symptom=%s", ke.def.ID, kind, in, pt.EvName, symptom)
	if f.Step2 > 0 {
		sig += "|depth2"
	}
	if ke.sigSeen[sig] {
		return
	}
	ke.sigSeen[sig] = true
	pl := ke.plan.Clone()
	pl.Fault = f
	msg := fmt.Sprintf("crash point %d (after %s, operation %d %s, sub %d", pt.Mut, pt.EvName, pt.Op, op.Kind, pt.Sub)
	if pt.Torn > 0 {
		msg += fmt.Sprintf(", torn after %d bytes", pt.Torn)
	}
	if f.Step2 > 0 {
		msg += fmt.Sprintf(", second crash at step %d of the recovery, after %s", f.Step2, pt.Ev2)
	}
	msg += "): " + fmt.Sprintf(format, a...)
	msg = strings.ReplaceAll(msg, ke.base, "<run>")
	ke.res.Viols = append(ke.res.Viols, ViolRec{Violation: Violation{Prop: ke.def.ID, Sig: sig, Msg: msg, Step: pt.Op}, Plan: pl})
}

func (ke *kEval) evalPoint(pt crashPoint, replay *Fault) {
	heartbeat()
	ke.curPt = pt.Mut + pt.Torn
	if ke.def.ID == "C06" {
		ke.evalPowerLoss(pt, replay)
		return
	}
	d := ke.diskAt(pt.Ev, pt.Torn)
	img := ke.imgDir()
	defer os.RemoveAll(img)
	if err := d.Materialise(ke.r.Dir, img, nil); err != nil {
		panic(infraErr{err})
	}
	f := &Fault{Kind: "crash", Step: pt.Mut, Torn: pt.Torn}
	if pt.Torn > 0 {
		f.Kind = "torn"
	}
	ke.res.Faults[f.Kind]++
	vs, _ := ke.variants(pt)
	step2 := 0
	if replay != nil {
		step2 = replay.Step2
	}
	if step2 > 0 {
		// replay of a depth-2 fault: only that one
		ke.depth2(pt, img, vs, step2)
		return
	}
	ke.evals++
	rtrace := ke.checkImage(pt, f, img, vs, true)
	ke.noteState(pt, img)
	// depth 2: crash inside the recovery that just ran
	if rtrace != nil && replay == nil {
		var rm []int
		for i := range rtrace {
			if rtrace[i].Mutation() {
				rm = append(rm, i)
			}
		}
		if len(rm) > 1 {
			n := 2
			if ke.plan.Tier == "thorough" {
				n = 6
			}
			// never the last one (= completed recovery)
			cands := rm[:len(rm)-1]
			for c := 0; c < n && len(cands) > 0; c++ {
				j := ke.rng.Intn(len(cands))
				// re-materialise the image and cut the recovery
				img2 := ke.imgDir()
				if err := d.Materialise(ke.r.Dir, img2, nil); err != nil {
					panic(infraErr{err})
				}
				ke.depth2run(pt, img2, vs, rtrace, cands[j])
				os.RemoveAll(img2)
				cands = append(cands[:j], cands[j+1:]...)
			}
		}
	}
}

// depth2 replays a specific second crash (step2 = 1-based mutation index in the recovery).
func (ke *kEval) depth2(pt crashPoint, img string, vs []variant, step2 int) {
	rtrace := ke.recordRecovery(img)
	n := 0
	for i := range rtrace {
		if rtrace[i].Mutation() {
			n++
			if n == step2 {
				// restore the image (the recorded recovery modified it)
				d := ke.diskAt(pt.Ev, pt.Torn)
				img2 := ke.imgDir()
				defer os.RemoveAll(img2)
				if err := d.Materialise(ke.r.Dir, img2, nil); err != nil {
					panic(infraErr{err})
				}
				ke.depth2run(pt, img2, vs, remapTrace(rtrace, img, img2), i)
				return
			}
		}
	}
}

func remapTrace(tr []sim.FSEvent, from, to string) []sim.FSEvent {
	out := make([]sim.FSEvent, len(tr))
	for i, e := range tr {
		e.Path = strings.Replace(e.Path, from, to, 1)
		e.Path2 = strings.Replace(e.Path2, from, to, 1)
		out[i] = e
	}
	return out
}

// recordRecovery runs Open(Recover)+Close on dir under the tap and returns the trace.
func (ke *kEval) recordRecovery(dir string) []sim.FSEvent {
	sim.BeginInline(Mix(ke.plan.Seed, 99), lastClockUS)
	tr := sim.NewFSTrace()
	sim.FS = tr
	o := ke.recOpts()
	_ = guard(func() error {
		l, e := klevdb.Open(dir, o)
		if e == nil {
			_ = l.Close()
		}
		return e
	})
	sim.FS = nil
	sim.End()
	return tr.Events
}

func (ke *kEval) recOpts() klevdb.Options {
	o := ke.r.OOpts
	// Check next to Recover changes nothing ("Open will directly try to recover"): set for a
	// quarter of the crash points (decided by the crash point, so that a replay does the same)
	o.Recover, o.Check, o.Eager, o.Readonly = true, ke.curPt%4 == 3, false, false
	return o.K(&ke.plan.Cfg)
}

// depth2run: the directory img2 holds crash image 1; apply the recovery trace (recorded on a
// sibling directory, remapped) up to event cut, and check the result like any image.
func (ke *kEval) depth2run(pt crashPoint, img2 string, vs []variant, rtrace []sim.FSEvent, cut int) {
	// the recovery trace refers to the directory it was recorded on
	var from string
	for i := range rtrace {
		if rtrace[i].Path != "" {
			from = filepath.Dir(rtrace[i].Path)
			break
		}
	}
	tr := rtrace
	if from != "" && from != img2 {
		tr = remapTrace(rtrace, from, img2)
	}
	d := DiskFromDir(img2)
	mutN := 0
	for i := 0; i <= cut && i < len(tr); i++ {
		if tr[i].Mutation() {
			mutN++
		}
		d.Apply(&tr[i])
	}
	img3 := ke.imgDir()
	defer os.RemoveAll(img3)
	if err := d.Materialise(img2, img3, nil); err != nil {
		panic(infraErr{err})
	}
	f := &Fault{Kind: "crash", Step: pt.Mut, Torn: pt.Torn, Step2: mutN}
	if pt.Torn > 0 {
		f.Kind = "torn"
	}
	ke.res.Faults["crash_in_recovery"]++
	for n := range snapDir(img3) {
		if strings.Contains(n, ".recover") || strings.Contains(n, ".migrate") || strings.Contains(n, ".rewrite") {
			ke.res.Faults["stale_temp"]++
			break
		}
	}
	ke.evals++
	pt2 := pt
	pt2.Ev2 = evName(&tr[cut])
	pt2.Last = pt.Last
	ke.checkImage(pt2, f, img3, vs, false)
}

// checkImage evaluates the C05 oracle on one directory image. When record is set the first
// Open(Recover) runs under the tap and its trace is returned (for depth 2).
func (ke *kEval) checkImage(pt crashPoint, f *Fault, img string, vs []variant, record bool) []sim.FSEvent {
	cfg := &ke.plan.Cfg
	ke.overlap = overlappingSegments(img)
	if ke.overlap {
		ke.res.Probes["image_with_overlapping_segments"]++
	}
	sim.BeginInline(Mix(ke.plan.Seed, uint64(pt.Mut)), lastClockUS)
	defer sim.End()
	var tr *sim.FSTrace
	if record {
		tr = sim.NewFSTrace()
		sim.FS = tr
	}
	var l klevdb.Log
	err := guard(func() error {
		var e error
		l, e = klevdb.Open(img, ke.recOpts())
		return e
	})
	sim.FS = nil
	var rtrace []sim.FSEvent
	if tr != nil {
		rtrace = tr.Events
	}
	if err != nil {
		ke.report(pt, f, "recover-open-failed|"+errKind(err), "Open with Recover failed: %v", err)
		return nil
	}
	closeL := func() {
		if l != nil {
			_ = guard(func() error { return l.Close() })
			l = nil
		}
	}
	defer closeL()
	// what does the recovered log show?
	var next int64
	if e := guard(func() error {
		var e error
		next, e = l.NextOffset()
		return e
	}); e != nil {
		ke.report(pt, f, "nextoffset-error", "NextOffset failed: %v", e)
		return rtrace
	}
	R, _, diag := scanLog(l, 7, int(next)*2+len(ke.r.M.Published)+50)
	if diag != "" {
		ke.report(pt, f, "scan-error|"+scanDiagKind(diag), "reading the recovered log failed: %s", diag)
		return rtrace
	}
	matched := -1
	for i, v := range vs {
		if diffLive(R, v.Live) == "" {
			if next == v.Next {
				matched = i
				break
			}
			if matched < 0 {
				matched = -2 - i
			}
		}
	}
	if matched < 0 {
		if matched <= -2 {
			v := vs[-2-matched]
			sym := "next-ahead"
			if next < v.Next {
				sym = "next-moved-back"
			}
			ke.report(pt, f, sym, "recovered log has the expected messages but NextOffset=%d, want %d (%s)", next, v.Next, v.Name)
			return rtrace
		}
		sym, why := classifyRecovered(R, vs, ke.k.ops[pt.Op])
		ke.report(pt, f, sym, "recovered log shows %v (next %d); allowed: %s; %s", msgOffs(R), next, describeVariants(vs), why)
		return rtrace
	}
	// all views agree
	rm := NewModel(cfg.Keys, cfg.Times)
	rm.Live, rm.Next = R, next
	rm.Monotone, rm.MaxUS, rm.HasAny = ke.r.M.Monotone, ke.r.M.MaxUS, ke.r.M.HasAny
	rm.Published = ke.r.M.Published
	if sig, msg := ke.viewsAgree(l, rm, img); sig != "" {
		ke.report(pt, f, "views-disagree|"+sig, "views of the recovered log disagree: %s", msg)
		return rtrace
	}
	closeL()
	// recovering again changes nothing
	snap := snapDir(img)
	if e := guard(func() error {
		l2, e := klevdb.Open(img, ke.recOpts())
		if e == nil {
			e = l2.Close()
		}
		return e
	}); e != nil {
		ke.report(pt, f, "second-recover-failed|"+errKind(e), "second Open with Recover failed: %v", e)
		return rtrace
	}
	if dd := snap.diff(snapDir(img)); dd != "" {
		ke.report(pt, f, "second-recover-changed", "recovering again changed the directory: %s", dd)
		return rtrace
	}
	// appendable, and passes Check afterwards
	o := ke.r.OOpts
	o.Recover, o.Check, o.Eager, o.Readonly = false, false, false, false
	var l3 klevdb.Log
	if e := guard(func() error {
		var e error
		l3, e = klevdb.Open(img, o.K(cfg))
		return e
	}); e != nil {
		ke.report(pt, f, "open-after-recover-failed|"+errKind(e), "plain Open after recovery failed: %v", e)
		return rtrace
	}
	fresh := []klevdb.Message{{Key: []byte("after-crash"), Value: []byte("fresh-1")}, {Key: nil, Value: []byte("fresh-2")}}
	if rm.HasAny && sim.NowUS() < rm.MaxUS {
		sim.SetClockUS(rm.MaxUS)
	}
	var pn int64
	if e := guard(func() error {
		var e error
		pn, e = l3.Publish(fresh)
		return e
	}); e != nil {
		_ = guard(func() error { return l3.Close() })
		ke.report(pt, f, "publish-after-recover-failed|"+errKind(e), "Publish after recovery failed: %v", e)
		return rtrace
	}
	if pn != next+2 || fresh[0].Offset != next {
		_ = guard(func() error { return l3.Close() })
		ke.report(pt, f, "publish-after-recover-offsets", "Publish after recovery returned %d and assigned %d, NextOffset was %d", pn, fresh[0].Offset, next)
		return rtrace
	}
	R2, _, diag := scanLog(l3, 5, int(pn)*2+50)
	want := append(append([]Msg(nil), R...), fromKs(fresh)...)
	cerr := guard(func() error { return l3.Close() })
	if diag != "" || diffLive(R2, want) != "" {
		ke.report(pt, f, "scan-after-append", "after appending to the recovered log the scan is wrong: %s %s", diag, diffLive(R2, want))
		return rtrace
	}
	if cerr != nil {
		ke.report(pt, f, "close-after-append-failed", "Close after appending failed: %v", cerr)
		return rtrace
	}
	if !cfg.Times || rm.Monotone {
		if e := guard(func() error {
			return klevdb.Check(img, klevdb.Options{KeyIndex: cfg.Keys, TimeIndex: cfg.Times})
		}); e != nil {
			ke.report(pt, f, "check-after-append-failed|"+errKind(e), "Check after recovery and append failed: %v", e)
			return rtrace
		}
	}
	// the crash hit an operation that ran an offline migration: the operator runs it again.
	// Afterwards every index is rebuilt from its log, so that what the log files hold shows.
	if pt.Op >= 1 && pt.Op <= len(ke.plan.Ops) {
		for _, tool := range ke.plan.Ops[pt.Op-1].Tools {
			if tool != "migrate1" && tool != "migrate2" {
				continue
			}
			kv := klevdb.V2
			if tool == "migrate1" {
				kv = klevdb.V1
			}
			ko := klevdb.Options{KeyIndex: cfg.Keys, TimeIndex: cfg.Times}
			if e := guard(func() error { return klevdb.Migrate(img, ko, kv) }); e != nil {
				ke.report(pt, f, "migrate-again-failed|"+errKind(e), "running %s again on the recovered directory failed: %v", tool, e)
				return rtrace
			}
			for _, ix := range indexFiles(img) {
				_ = os.Remove(ix)
			}
			var l4 klevdb.Log
			if e := guard(func() error {
				var e error
				l4, e = klevdb.Open(img, ke.recOpts())
				return e
			}); e != nil {
				ke.report(pt, f, "open-after-migrate-again-failed|"+errKind(e), "Open after running %s again failed: %v", tool, e)
				return rtrace
			}
			R3, _, diag := scanLog(l4, 5, int(pn)*2+50)
			_ = guard(func() error { return l4.Close() })
			if diag != "" || diffLive(R3, want) != "" {
				ke.report(pt, f, "scan-after-migrate-again", "after running %s again (indexes rebuilt from the logs) the scan is wrong: %s %s", tool, diag, diffLive(R3, want))
				return rtrace
			}
			ke.res.Probes["migrate_again_after_crash"]++
			break
		}
	}
	return rtrace
}

func describeVariants(vs []variant) string {
	var parts []string
	for i, v := range vs {
		if i >= 4 {
			parts = append(parts, fmt.Sprintf("... %d more", len(vs)-i))
			break
		}
		parts = append(parts, fmt.Sprintf("%s=%v/next %d", v.Name, msgOffs(v.Live), v.Next))
	}
	return strings.Join(parts, "; ")
}

// classifyRecovered names the way a recovered list differs from every allowed state.
func classifyRecovered(R []Msg, vs []variant, op opRec) (string, string) {
	allowedAny := map[int64]Msg{}
	inAll := map[int64]int{}
	for _, v := range vs {
		for _, m := range v.Live {
			allowedAny[m.Off] = m
			inAll[m.Off]++
		}
	}
	got := map[int64]bool{}
	for i, m := range R {
		if i > 0 && m.Off <= R[i-1].Off {
			return "duplicate-or-disorder", fmt.Sprintf("offset %d after %d", m.Off, R[i-1].Off)
		}
		got[m.Off] = true
		a, ok := allowedAny[m.Off]
		if !ok {
			if m.Off < op.Before.Next && int(m.Off) < len(op.Before.Published) && sameMsg(m, op.Before.Published[m.Off]) {
				return "resurrected", fmt.Sprintf("message %v was deleted earlier", m)
			}
			return "invented", fmt.Sprintf("message %v is in no allowed state", m)
		}
		if !sameMsg(a, m) {
			return "altered", fmt.Sprintf("message at %d is %v, want %v", m.Off, m, a)
		}
	}
	for off, n := range inAll {
		if n == len(vs) && !got[off] {
			return "lost", fmt.Sprintf("message %d is in every allowed state and missing", off)
		}
	}
	return "in-between", "the state is a mixture of the allowed before/after states"
}

// viewsAgree runs the read oracles of C03/C04/C09/C10 and Stat on the recovered log against
// a model built from its own scan.
func (ke *kEval) viewsAgree(l klevdb.Log, rm *Model, dir string) (string, string) {
	vr := &Run{P: ke.plan, Prop: "views", Base: ke.base, Dir: dir, M: rm, L: l, Probes: map[string]int{}, Feat: map[string]bool{},
		Obs: NewRng(Mix(ke.plan.Seed, 5)), Ctx: map[string]any{}, Deep: true, OOpts: ke.r.OOpts}
	op := &Op{K: "views"}
	for _, h := range []Hooks{hooksC03(), hooksC04(), hooksC09(), hooksC10()} {
		h.AfterStep(vr, op)
		if vr.Viol != nil {
			return strings.TrimPrefix(vr.Viol.Sig, "views|"), vr.Viol.Msg
		}
	}
	if !checkStat(vr, "recovered") && vr.Viol != nil {
		return strings.TrimPrefix(vr.Viol.Sig, "views|"), vr.Viol.Msg
	}
	return "", ""
}

func (ke *kEval) noteState(pt crashPoint, img string) {
	op := ke.k.ops[pt.Op]
	s := fmt.Sprintf("%s|%s|sub%d|torn%v|last%v", op.Kind, pt.EvName, pt.Sub, pt.Torn > 0, pt.Last)
	ke.stateSeen[s] = true
}

// evalPowerLoss builds power-loss images at one crash point and checks the C06 oracle.
func (ke *kEval) evalPowerLoss(pt crashPoint, replay *Fault) {
	if pt.Torn > 0 {
		return
	}
	d := ke.diskAt(pt.Ev, 0)
	files := d.under(ke.r.Dir)
	vs, w := ke.variants(pt)
	type choice struct {
		name string
		cuts []int64
	}
	var choices []choice
	if replay != nil {
		choices = append(choices, choice{"replay", replay.Cuts})
	} else {
		mk := func(f func(i int) int64) []int64 {
			c := make([]int64, len(files))
			for i := range c {
				c[i] = f(i)
			}
			return c
		}
		choices = append(choices, choice{"all-synced", mk(func(int) int64 { return 0 })})
		choices = append(choices, choice{"all-full", mk(func(int) int64 { return 1000 })})
		n := 3
		if ke.plan.Tier == "thorough" {
			n = 12
		}
		for c := 0; c < n; c++ {
			choices = append(choices, choice{"mixed", mk(func(int) int64 {
				switch ke.rng.Pick(30, 30, 40) {
				case 0:
					return 0
				case 1:
					return 1000
				}
				return int64(ke.rng.Intn(1001))
			})})
		}
	}
	anyLoss := false
	for _, ch := range choices {
		img := ke.imgDir()
		idx := map[string]int{}
		for i, p := range files {
			idx[filepath.Base(p)] = i
		}
		lost := false
		err := d.Materialise(ke.r.Dir, img, func(name string, o *fobj) []byte {
			i, ok := idx[name]
			pm := int64(1000)
			if ok && i < len(ch.cuts) {
				pm = ch.cuts[i]
			}
			b := powerCut(o, pm)
			if len(b) != len(o.data) {
				lost = true
			}
			return b
		})
		if err != nil {
			panic(infraErr{err})
		}
		if lost {
			anyLoss = true
			ke.res.Faults["powerloss_with_data_loss"]++
		}
		ke.res.Faults["powerloss"]++
		ke.evals++
		f := &Fault{Kind: "powerloss", Step: pt.Mut, Cuts: ch.cuts, Mode: ch.name}
		ke.checkPowerLoss(pt, f, img, vs, w)
		os.RemoveAll(img)
	}
	if anyLoss {
		ke.noteState(pt, "")
	}
}

func (ke *kEval) checkPowerLoss(pt crashPoint, f *Fault, img string, vs []variant, w int64) {
	ke.overlap = overlappingSegments(img)
	sim.BeginInline(Mix(ke.plan.Seed, uint64(pt.Mut)), lastClockUS)
	defer sim.End()
	var l klevdb.Log
	err := guard(func() error {
		var e error
		l, e = klevdb.Open(img, ke.recOpts())
		return e
	})
	if err != nil {
		ke.report(pt, f, "recover-open-failed|"+errKind(err), "Open with Recover after the power loss failed: %v (watermark %d)", err, w)
		return
	}
	defer func() { _ = guard(func() error { return l.Close() }) }()
	var next int64
	if e := guard(func() error {
		var e error
		next, e = l.NextOffset()
		return e
	}); e != nil {
		ke.report(pt, f, "nextoffset-error", "NextOffset failed: %v", e)
		return
	}
	R, _, diag := scanLog(l, 7, int(next)*2+len(ke.r.M.Published)+50)
	if diag != "" {
		ke.report(pt, f, "scan-error|"+scanDiagKind(diag), "reading the recovered log failed: %s", diag)
		return
	}
	if next < w {
		ke.report(pt, f, "next-below-watermark", "NextOffset=%d after recovery, %d had been acknowledged as durable", next, w)
		return
	}
	// R must be a prefix of an allowed crash-time live list and contain everything below w
	ok := false
	var why string
	for _, v := range vs {
		if len(R) > len(v.Live) {
			why = fmt.Sprintf("recovered %d messages, crash-time list (%s) has %d", len(R), v.Name, len(v.Live))
			continue
		}
		pref := true
		for i := range R {
			if !sameMsg(R[i], v.Live[i]) {
				pref = false
				why = fmt.Sprintf("position %d: recovered %v, crash-time list (%s) has %v", i, R[i], v.Name, v.Live[i])
				break
			}
		}
		if !pref {
			continue
		}
		missing := false
		for _, m := range v.Live[len(R):] {
			if m.Off < w {
				missing = true
				why = fmt.Sprintf("message %v (offset below the watermark %d) is missing", m, w)
				break
			}
		}
		if !missing {
			ok = true
			break
		}
	}
	if !ok {
		sym := "not-a-prefix"
		if strings.Contains(why, "below the watermark") {
			sym = "acked-message-lost"
		}
		ke.report(pt, f, sym, "watermark %d; recovered %v (next %d); allowed crash-time lists: %s; %s", w, msgOffs(R), next, describeVariants(vs), why)
	}
}

func genPlanK(def *PropDef, tier string, seed uint64, run int64) *Plan {
	p := GenPlanH(def.ID, "protocol", tier, seed, run)
	p.Engine = "K"
	return p
}
