package harness

import (
	"bufio"
	"encoding/json"
	"fmt"
	"os"
	"path/filepath"
	"sort"
	"strings"
	"time"

	"github.com/klev-dev/klevdb/verifsim/sim"
)

type ViolRec struct {
	Violation
	Plan *Plan `json:"plan"`
}

// RunResult is what a worker reports for one simulated run.
type RunResult struct {
	Begin        *int64          `json:"begin,omitempty"` // marker line: run about to start
	HB           bool            `json:"hb,omitempty"`    // heartbeat of a long run (keeps the supervisor's watchdog quiet)
	Run          int64           `json:"run"`
	Seed         uint64          `json:"seed"`
	Evals        int             `json:"evals"`
	Viols        []ViolRec       `json:"viols,omitempty"`
	Abort        string          `json:"abort,omitempty"`
	Probes       map[string]int  `json:"probes,omitempty"`
	Faults       map[string]int  `json:"faults,omitempty"`
	Sigs         []string        `json:"sigs,omitempty"` // distinct non-trivial case signatures reached
	Steps        int             `json:"steps"`
	SimUS        int64           `json:"sim_us"`
	Digest       uint64          `json:"digest"`
	Sample       json.RawMessage `json:"sample,omitempty"`
	Sites        map[string]int  `json:"sites,omitempty"`
	Infra        string          `json:"infra,omitempty"`
	Inconclusive int             `json:"inconclusive,omitempty"`
	Log          []string        `json:"log,omitempty"`
	Extra        map[string]any  `json:"extra,omitempty"` // engine-specific part of the evidence sample (fault trace, schedule)
	Trace        []int32         `json:"trace,omitempty"` // engine S: the complete decision list (only on request, VSIM_TRACE)
	Diverged     int             `json:"diverged,omitempty"`
}

// PropDef describes how one property is checked.
type PropDef struct {
	ID        string
	Engine    string // H, K, D, S
	Profile   string
	Hooks     func() Hooks
	Level     string
	Rule      string
	QuickS    int
	ThorS     int
	Race      bool
	Trigger   []string // a run is non-trivial if one of these probes fired (empty: any)
	Assume    []string
	Gen       func(def *PropDef, tier string, seed uint64, run int64) *Plan
	RunPlan   func(def *PropDef, p *Plan, scratch string) *RunResult
	Technique string
}

var Props = map[string]*PropDef{}

func register(d *PropDef) {
	if d.Gen == nil {
		d.Gen = func(def *PropDef, tier string, seed uint64, run int64) *Plan {
			return GenPlanH(def.ID, def.Profile, tier, seed, run)
		}
	}
	if d.RunPlan == nil {
		d.RunPlan = runPlanH
	}
	Props[d.ID] = d
}

func runSeed(base uint64, run int64) uint64 { return Mix(base, uint64(run)) }

// runPlanH executes one engine-H plan in a fresh directory.
func runPlanH(def *PropDef, p *Plan, scratch string) *RunResult {
	base := filepath.Join(scratch, fmt.Sprintf("r%d", p.Run))
	_ = os.RemoveAll(base)
	defer os.RemoveAll(base)
	r := NewRun(p, base, def.Hooks())
	start := p.Cfg.StartUS
	r.Exec()
	res := &RunResult{Run: p.Run, Seed: p.Seed, Evals: 1, Probes: r.Probes, Steps: len(p.Ops), Digest: r.digest, Abort: r.Abort}
	res.SimUS = lastClockUS - start
	if os.Getenv("VSIM_VERBOSE") != "" {
		res.Log = r.Log
	}
	if r.Viol != nil {
		res.Viols = append(res.Viols, ViolRec{Violation: *r.Viol, Plan: p})
	}
	nontrivial := len(def.Trigger) == 0
	for _, t := range def.Trigger {
		if r.Probes[t] > 0 {
			nontrivial = true
		}
	}
	if nontrivial && r.Abort == "" {
		res.Sigs = []string{stateSig(r)}
	}
	return res
}

var lastClockUS int64

func stateSig(r *Run) string {
	var fs []string
	for f := range r.Feat {
		fs = append(fs, f)
	}
	sort.Strings(fs)
	c := r.P.Cfg
	s := fmt.Sprintf("k%v,t%v,m%v,ro%d,v%d,keep%v", b2i(c.Keys), b2i(c.Times), b2i(c.Monotone), c.Open.Rollover, c.Open.NewV, b2i(c.Open.Keep))
	for _, f := range fs {
		s += "," + f
	}
	nre, ndel := 0, 0
	for _, op := range r.P.Ops {
		switch op.K {
		case "reopen":
			nre++
		case "del", "delmulti":
			ndel++
		}
	}
	s += fmt.Sprintf(",re%d,del%d", bucket(nre), bucket(ndel))
	return s
}

func bucket(n int) int {
	switch {
	case n <= 1:
		return n
	case n <= 3:
		return 2
	case n <= 8:
		return 4
	}
	return 9
}

func b2i(b bool) int {
	if b {
		return 1
	}
	return 0
}

// WorkerMain runs runs start, start+stride, ... until the deadline and streams results.
func installOnFail() {
	sim.OnFail = func(kind, detail string) {
		fmt.Fprintf(os.Stderr, "SIM-%s: %s\n", strings.ToUpper(kind), detail)
		os.Exit(3)
	}
}

// heartbeat is called by long-running engines between evaluations.
var heartbeat = func() {}

func WorkerMain(propID, tier string, baseSeed uint64, start, stride int64, deadline time.Time, maxRuns int64, scratch string) int {
	installOnFail()
	def := Props[propID]
	if def == nil {
		fmt.Fprintln(os.Stderr, "unknown property", propID)
		return 2
	}
	out := bufio.NewWriterSize(os.Stdout, 1<<16)
	defer out.Flush()
	enc := json.NewEncoder(out)
	_ = os.MkdirAll(scratch, 0o755)
	lastHB := time.Now()
	heartbeat = func() {
		if time.Since(lastHB) > 10*time.Second {
			lastHB = time.Now()
			_ = enc.Encode(&RunResult{HB: true})
			out.Flush()
		}
	}
	n := int64(0)
	for run := start; ; run += stride {
		if maxRuns > 0 && run >= maxRuns {
			break
		}
		if n > 0 && time.Now().After(deadline) {
			break
		}
		n++
		b := run
		_ = enc.Encode(&RunResult{Begin: &b, Run: run})
		out.Flush()
		seed := runSeed(baseSeed, run)
		plan := GenPlan(def, tier, seed, run)
		res := def.RunPlan(def, plan, scratch)
		if run < 3*stride && run/stride < 3 {
			res.Sample, _ = json.Marshal(map[string]any{"plan": samplePlan(plan), "explored": res.Extra})
		}
		res.Extra = nil
		if err := enc.Encode(res); err != nil {
			return 2
		}
		out.Flush()
	}
	return 0
}

// samplePlan trims a plan for inclusion in the evidence file.
func samplePlan(p *Plan) *Plan {
	q := p.Clone()
	if len(q.Ops) > 12 {
		q.Ops = q.Ops[:12]
	}
	for i := range q.Ops {
		for j := range q.Ops[i].Msgs {
			if len(q.Ops[i].Msgs[j].Val) > 16 {
				q.Ops[i].Msgs[j].Val = q.Ops[i].Msgs[j].Val[:16]
			}
		}
	}
	if len(q.Tasks) > 0 {
		q.Ops = nil
	}
	return q
}

// ExecMain executes one plan (replay or minimisation candidate) and prints its result.
func ExecMain(planPath string, scratch string) int {
	installOnFail()
	p, err := LoadPlan(planPath)
	if err != nil {
		fmt.Fprintln(os.Stderr, "exec:", err)
		return 2
	}
	def := Props[p.Prop]
	if def == nil {
		fmt.Fprintln(os.Stderr, "unknown property", p.Prop)
		return 2
	}
	_ = os.MkdirAll(scratch, 0o755)
	res := def.RunPlan(def, p, scratch)
	b, _ := json.Marshal(res)
	fmt.Println(string(b))
	return 0
}

// GenPlan is the plan of run number run: the property's generator, plus the decision (from
// the run's seed alone) whether the log is driven through the typed facade.
func GenPlan(def *PropDef, tier string, seed uint64, run int64) *Plan {
	plan := def.Gen(def, tier, seed, run)
	if (plan.Engine == "H" || plan.Engine == "S") && Mix(seed, 0x74797065)%8 == 0 {
		plan.Cfg.Typed = true
		if plan.Prop == "C08" && plan.Cfg.Times {
			// the adapter stamps messages without a time when the call starts, the log does it
			// when the call gets the writer lock: under concurrency (and a moving clock) the
			// adapter's times can decrease with offset, and time lookups are then not pinned down
			plan.Cfg.Typed = false
		}
	}
	return plan
}
