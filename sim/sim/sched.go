// Package sim is the simulator core shared by all shims: the serialized task scheduler,
// the simulated clock with discrete-event timers, the run PRNG and the file-system trace.
//
// Everything the core shares between tasks is touched only inside //go:norace functions and
// the hand-off between tasks goes through plain memory words, so a -race build sees only the
// synchronisation of the code under test (DESIGN.md 3.3).
package sim

import (
	"runtime"
	"time"
)

// Strategy of the scheduler for one run.
const (
	StratRandom = iota // uniform random task at every yield
	StratPCT           // random priorities, d priority change points
	StratHold          // park a victim at its j-th yield, run the others, resume
	StratSeq           // run to completion in order with few random pre-emptions
)

type Config struct {
	Seed     uint64
	Strategy int
	// PCT
	PCTDepth int
	PCTLen   int // expected number of steps, for placing change points
	// Hold
	HoldTask   int // index of victim task
	HoldYield  int // victim is parked when it reaches this yield count (1-based)
	HoldTask2  int // optional second victim (-1 none)
	HoldYield2 int
	// Seq
	Preempts int
	MaxSteps int
	// Explicit decision list (replay of a minimised schedule): when non-nil, decision i is
	// taken from it as long as the task is runnable, and the strategy takes over afterwards.
	Decisions []int32
}

const (
	stNew = iota
	stRunnable
	stBlocked
	stQuiescentWait
	stDone
)

type task struct {
	id         int
	name       string
	run        uint32 // hand-off word
	state      int
	blockEpoch uint64
	prio       int
	yields     int
	held       bool
	lastSite   uintptr
	s          *Sched
}

// Timer is a discrete-event timer.
type timer struct {
	at   int64 // simulated µs
	seq  uint64
	fire func() // called with the scheduler's token held by the advancing task
	dead bool
}

type Sched struct {
	cfg           Config
	tasks         []*task
	cur           *task
	epoch         uint64
	steps         int
	rng           uint64
	dead          bool
	Outcome       string // "", "deadlock", "livelock"
	OutcomeDetail string

	trace     []int32 // task chosen at each decision point where >1 task was runnable
	switches  int
	decisions int

	pctChange []int // steps at which the running task's priority drops
	preemptAt []int

	holdReleased  bool
	hold2Released bool

	// coverage (no Go maps in here: the runtime's map code carries race hooks)
	sitePC  []uintptr
	siteCnt []int
	sigHash uint64

	lastYieldWall int64
	heldSites     [4]uintptr // where the hold strategy parked its victims
	heldN         int
	callSteps     int // inline runs: yields since the harness started the current call
	callBudget    int // 0 = none
	diverged      int // replay of a decision list: picks whose recorded task was not runnable
	spawned       int
	planned       int // tasks registered before Start (the rest were spawned by go statements)
	ended         bool
}

// S is the scheduler of the run in progress; nil when no multi-task simulation is active.
var S *Sched

//go:norace
func NewSched(cfg Config) *Sched {
	s := &Sched{cfg: cfg, rng: cfg.Seed*0x9E3779B97F4A7C15 + 0x1234567}
	s.sitePC = make([]uintptr, siteTab)
	s.siteCnt = make([]int, siteTab)
	s.trace = make([]int32, 0, 1<<14)
	if s.cfg.MaxSteps == 0 {
		s.cfg.MaxSteps = 200000
	}
	s.sigHash = 1469598103934665603
	return s
}

//go:norace
func (s *Sched) rand() uint64 {
	s.rng += 0x9E3779B97F4A7C15
	z := s.rng
	z = (z ^ (z >> 30)) * 0xBF58476D1CE4E5B9
	z = (z ^ (z >> 27)) * 0x94D049BB133111EB
	return z ^ (z >> 31)
}

//go:norace
func (s *Sched) intn(n int) int {
	if n <= 1 {
		return 0
	}
	return int(s.rand() % uint64(n))
}

// AddTask registers a task before Run; returns its id.
//
//go:norace
func (s *Sched) AddTask(name string) int {
	t := &task{id: len(s.tasks), name: name, state: stRunnable, s: s}
	s.tasks = append(s.tasks, t)
	return t.id
}

//go:norace
func (s *Sched) prepare() {
	n := len(s.tasks)
	// PCT priorities: a random permutation, higher runs first
	perm := make([]int, n)
	for i := range perm {
		perm[i] = i
	}
	for i := n - 1; i > 0; i-- {
		j := s.intn(i + 1)
		perm[i], perm[j] = perm[j], perm[i]
	}
	for i, t := range s.tasks {
		t.prio = perm[i] + 1000
	}
	if s.cfg.Strategy == StratPCT {
		ln := s.cfg.PCTLen
		if ln < 10 {
			ln = 10
		}
		for i := 0; i < s.cfg.PCTDepth; i++ {
			s.pctChange = append(s.pctChange, 1+s.intn(ln))
		}
	}
	if s.cfg.Strategy == StratSeq {
		ln := s.cfg.PCTLen
		if ln < 10 {
			ln = 10
		}
		for i := 0; i < s.cfg.Preempts; i++ {
			s.preemptAt = append(s.preemptAt, 1+s.intn(ln))
		}
	}
}

// Start must be called by the harness goroutine after all tasks were added and their
// goroutines were started (each calling TaskBegin first).
//
//go:norace
func (s *Sched) Start() {
	s.planned = len(s.tasks)
	s.prepare()
	s.lastYieldWall = nowWall()
	first := s.pick(nil)
	s.cur = first
	first.run = 1
}

// TaskBegin parks the calling goroutine until the scheduler gives it the first turn.
//
//go:norace
func (s *Sched) TaskBegin(id int) {
	t := s.tasks[id]
	t.park()
}

//go:norace
func (t *task) park() {
	for t.run == 0 {
		if t.s != nil && t.s.ended {
			// the simulation is over: a task that was still parked (a goroutine started by the
			// code under test that never finished) blocks for good here instead of spinning;
			// it must not run any more code of the run (deferred calls would reach the shims
			// of the next simulation)
			var never chan struct{}
			<-never
		}
		runtime.Gosched()
	}
	t.run = 0
}

// Spawn registers a task created while the simulation runs (a go statement of the code
// under test, translated to simchan.Go). The new task is runnable at once.
//
//go:norace
func (s *Sched) Spawn(name string) int {
	t := &task{id: len(s.tasks), name: name, state: stRunnable, s: s, prio: s.lowestPrio() - 1}
	if len(s.tasks) == cap(s.tasks) {
		n := make([]*task, len(s.tasks), 2*cap(s.tasks)+4)
		copy(n, s.tasks)
		s.tasks = n
	}
	s.tasks = s.tasks[:len(s.tasks)+1]
	s.tasks[len(s.tasks)-1] = t
	s.spawned++
	return t.id
}

// Drain lets every other runnable task run until all of them are finished or blocked
// (inline runs: called by the harness between operations and before the simulation ends).
//
//go:norace
func (s *Sched) Drain() {
	t := s.cur
	if t == nil || s.dead || s.spawned == 0 {
		return
	}
	for i := 0; i < 100000; i++ {
		if !s.anyRunnableExcept(t, false) {
			return
		}
		// give way: the current task counts as blocked until somebody made progress
		t.state = stBlocked
		t.blockEpoch = s.epoch
		var next *task
		for _, o := range s.tasks {
			if o != t && s.runnable(o) {
				next = o
				break
			}
		}
		if next == nil {
			t.state = stRunnable
			return
		}
		s.switchTo(t, next)
		t.state = stRunnable
	}
}

// MarkEnded is called when the simulation of a run is over.
//
//go:norace
func (s *Sched) MarkEnded() { s.ended = true }

// BeginCall is called by the harness before every call into the code under test (inline
// runs): a single call that passes more scheduling points than the budget does not
// terminate for the purposes of the simulation (a deterministic, step-counted livelock
// verdict instead of a wall-clock watchdog).
//
//go:norace
func (s *Sched) BeginCall() {
	if s.planned == 1 {
		s.callSteps = 0
		s.callBudget = 5000000
	}
}

//go:norace
func (s *Sched) Spawned() int { return s.spawned }

//go:norace
func (s *Sched) Diverged() int { return s.diverged }

// TaskEnd is called by a task's goroutine when its script is finished.
//
//go:norace
func (s *Sched) TaskEnd(id int) {
	if s.ended {
		return
	}
	t := s.tasks[id]
	t.state = stDone
	s.epoch++
	next := s.pickOrAdvance(t)
	if next == nil {
		s.cur = nil
		return
	}
	s.cur = next
	next.run = 1
}

//go:norace
func (s *Sched) runnable(t *task) bool {
	switch t.state {
	case stRunnable:
		return !t.held
	case stBlocked:
		return !t.held && s.epoch > t.blockEpoch
	}
	return false
}

//go:norace
func (s *Sched) anyRunnableExcept(self *task, includeHeld bool) bool {
	for _, t := range s.tasks {
		if t == self {
			continue
		}
		if s.runnable(t) {
			return true
		}
	}
	return false
}

// pick chooses the next task to run among the runnable ones (self included if runnable).
// Returns nil when none is runnable.
//
//go:norace
func (s *Sched) pick(self *task) *task {
	var cand [64]*task
	n := 0
	for _, t := range s.tasks {
		if s.runnable(t) && n < len(cand) {
			cand[n] = t
			n++
		}
	}
	if n == 0 {
		// release held tasks if that is all that is left
		released := false
		for _, t := range s.tasks {
			if t.held {
				t.held = false
				released = true
			}
		}
		if released {
			return s.pick(self)
		}
		// quiescence: tasks waiting for it become runnable
		for _, t := range s.tasks {
			if t.state == stQuiescentWait {
				t.state = stRunnable
				return t
			}
		}
		return nil
	}
	if n == 1 && len(s.tasks) == 1 {
		return cand[0] // inline run without spawned tasks: nothing to decide, nothing to record
	}
	var chosen *task
	if s.decisions < len(s.cfg.Decisions) {
		want := int(s.cfg.Decisions[s.decisions])
		for i := 0; i < n; i++ {
			if cand[i].id == want {
				chosen = cand[i]
			}
		}
		if chosen == nil {
			s.diverged++
		}
	}
	if chosen == nil && n == 1 {
		chosen = cand[0]
	}
	if chosen == nil {
		switch s.cfg.Strategy {
		case StratRandom:
			chosen = cand[s.intn(n)]
		case StratPCT, StratHold:
			// Hold uses priority order for the non-held tasks so that each of them runs
			// to completion (or until it blocks) inside the window.
			for i := 0; i < n; i++ {
				if chosen == nil || cand[i].prio > chosen.prio {
					chosen = cand[i]
				}
			}
		case StratSeq:
			// keep running the current task if possible, else lowest id
			for i := 0; i < n; i++ {
				if cand[i] == self {
					chosen = self
				}
			}
			if chosen == nil {
				chosen = cand[0]
			}
		}
	}
	s.decisions++
	s.pushTrace(int32(chosen.id))
	return chosen
}

//go:norace
func (s *Sched) pickOrAdvance(self *task) *task {
	for {
		if t := s.pick(self); t != nil {
			return t
		}
		// nothing runnable: fire the earliest timer, if any
		if !fireNextTimer() {
			return nil
		}
		s.epoch++
	}
}

// Yield is a scheduling point. It returns when the calling task has the turn again.
//
//go:norace
func (s *Sched) Yield(site uintptr) {
	t := s.cur
	if t == nil || s.dead {
		return
	}
	s.lastYieldWall = nowWall()
	s.steps++
	t.yields++
	t.lastSite = site
	s.hitSite(site)
	if s.callBudget > 0 {
		s.callSteps++
		if s.callSteps > s.callBudget {
			s.fail("livelock", "one call of the code under test passed "+itoa(s.callBudget)+" scheduling points without returning")
			return
		}
	}
	if s.steps > s.cfg.MaxSteps {
		s.fail("livelock", "step budget exceeded")
		return
	}
	// strategy-specific events at this step
	switch s.cfg.Strategy {
	case StratPCT:
		for _, c := range s.pctChange {
			if c == s.steps {
				t.prio = s.lowestPrio() - 1
			}
		}
	case StratSeq:
		for _, c := range s.preemptAt {
			if c == s.steps {
				t.prio = s.lowestPrio() - 1
				// pre-empt: choose another runnable task at random
				var cand [64]*task
				n := 0
				for _, o := range s.tasks {
					if o != t && s.runnable(o) {
						cand[n] = o
						n++
					}
				}
				if n > 0 {
					o := cand[s.intn(n)]
					s.pushTrace(int32(o.id))
					s.switchTo(t, o)
					s.epoch++
					return
				}
			}
		}
	case StratHold:
		if !s.holdReleased && t.id == s.cfg.HoldTask && t.yields == s.cfg.HoldYield {
			t.held = true
			s.holdReleased = true
			s.noteHeld(site)
		}
		if !s.hold2Released && s.cfg.HoldTask2 >= 0 && t.id == s.cfg.HoldTask2 && t.yields == s.cfg.HoldYield2 {
			t.held = true
			s.hold2Released = true
			s.noteHeld(site)
		}
	}
	next := s.pick(t)
	if next == nil {
		// only possible when t itself is held and nothing else can run: pick released it
		next = t
	}
	if next != t {
		s.switchTo(t, next)
	}
	s.epoch++
}

//go:norace
func (s *Sched) noteHeld(site uintptr) {
	if s.heldN < len(s.heldSites) {
		s.heldSites[s.heldN] = site
		s.heldN++
	}
}

// HeldSites lists the yield sites at which the hold strategy parked a victim (harness, after the run).
func (s *Sched) HeldSites() []string {
	var out []string
	for i := 0; i < s.heldN; i++ {
		out = append(out, SiteName(s.heldSites[i]))
	}
	return out
}

//go:norace
func (s *Sched) lowestPrio() int {
	lo := 1 << 30
	for _, t := range s.tasks {
		if t.prio < lo {
			lo = t.prio
		}
	}
	return lo
}

//go:norace
func (s *Sched) switchTo(from, to *task) {
	s.switches++
	s.sigHash = (s.sigHash ^ uint64(to.id+1)) * 1099511628211
	s.sigHash = (s.sigHash ^ uint64(from.lastSite)) * 1099511628211
	s.cur = to
	to.run = 1
	from.park()
	if s.dead {
		// the run was abandoned while we were parked; stay parked forever
		for {
			runtime.Gosched()
			time.Sleep(time.Hour)
		}
	}
}

// Blocked tells the scheduler that the current task cannot proceed until some other task
// has made progress. It returns when the task should poll again.
//
//go:norace
func (s *Sched) Blocked(site uintptr) {
	t := s.cur
	if t == nil || s.dead {
		return
	}
	s.lastYieldWall = nowWall()
	s.steps++
	if s.steps > s.cfg.MaxSteps {
		s.fail("livelock", "step budget exceeded")
		return
	}
	t.lastSite = site
	t.state = stBlocked
	t.blockEpoch = s.epoch
	next := s.pickOrAdvance(t)
	if next == nil {
		if t.id >= s.planned && s.plannedDone() {
			// only goroutines started by the code under test are left, all blocked: not a
			// deadlock of the calls under test; this one stays parked until the run ends
			s.cur = nil
			t.park()
			return
		}
		s.fail("deadlock", "")
		return
	}
	if next != t {
		s.switchTo(t, next)
	}
	t.state = stRunnable
}

//go:norace
func (s *Sched) plannedDone() bool {
	for i := 0; i < s.planned && i < len(s.tasks); i++ {
		if s.tasks[i].state != stDone {
			return false
		}
	}
	return true
}

// WaitIdle is called by the harness goroutine after the planned tasks have finished: it
// returns when no task is running any more (spawned tasks finished or blocked).
//
//go:norace
func (s *Sched) WaitIdle() {
	for s.cur != nil && !s.dead {
		runtime.Gosched()
	}
}

// Progress is called after a polled operation finally succeeded.
//
//go:norace
func (s *Sched) Progress() {
	if s.cur != nil {
		s.epoch++
	}
}

// WaitQuiescent parks the calling task until no other task can run.
//
//go:norace
func (s *Sched) WaitQuiescent() {
	t := s.cur
	if t == nil || s.dead {
		return
	}
	t.state = stQuiescentWait
	next := s.pickOrAdvance(t)
	if next == nil {
		s.fail("deadlock", "")
		return
	}
	if next != t {
		s.switchTo(t, next)
	}
	t.state = stRunnable
}

// OnFail is called (once) when the run is abandoned because of a deadlock or livelock.
// It must not return to the tasks: the harness records the outcome and exits the process.
var OnFail func(kind, detail string)

//go:norace
func (s *Sched) fail(kind, detail string) {
	if s.dead {
		return
	}
	s.dead = true
	s.Outcome = kind
	d := detail
	for _, t := range s.tasks {
		if t.state != stDone {
			d += " [" + t.name + " state=" + itoa(t.state) + " at " + SiteName(t.lastSite) + "]"
		}
	}
	s.OutcomeDetail = d
	if OnFail != nil {
		OnFail(kind, d)
	}
	// never return into the code under test
	for {
		time.Sleep(time.Hour)
	}
}

func itoa(i int) string {
	if i == 0 {
		return "0"
	}
	neg := i < 0
	if neg {
		i = -i
	}
	var b [20]byte
	p := len(b)
	for i > 0 {
		p--
		b[p] = byte('0' + i%10)
		i /= 10
	}
	if neg {
		p--
		b[p] = '-'
	}
	return string(b[p:])
}

// ---- accessors used by the harness after the run (single goroutine again) ----

//go:norace
func (s *Sched) Trace() []int32 { return s.trace }

//go:norace
func (s *Sched) Steps() int { return s.steps }

//go:norace
func (s *Sched) Switches() int { return s.switches }

//go:norace
func (s *Sched) SigHash() uint64 { return s.sigHash }

const siteTab = 4096

//go:norace
func (s *Sched) hitSite(pc uintptr) {
	h := int((uint64(pc) * 0x9E3779B97F4A7C15) >> 52)
	for i := 0; i < siteTab; i++ {
		k := (h + i) & (siteTab - 1)
		if s.sitePC[k] == pc {
			s.siteCnt[k]++
			return
		}
		if s.sitePC[k] == 0 {
			s.sitePC[k] = pc
			s.siteCnt[k] = 1
			return
		}
	}
}

//go:norace
func (s *Sched) pushTrace(v int32) {
	if len(s.trace) == cap(s.trace) {
		n := make([]int32, len(s.trace), 2*cap(s.trace))
		copy(n, s.trace)
		s.trace = n
	}
	s.trace = s.trace[:len(s.trace)+1]
	s.trace[len(s.trace)-1] = v
}

// SiteHits is called by the harness after the run (single goroutine).
func (s *Sched) SiteHits() map[string]int {
	out := map[string]int{}
	for k, pc := range s.sitePC {
		if pc != 0 {
			out[SiteName(pc)] += s.siteCnt[k]
		}
	}
	return out
}

//go:norace
func (s *Sched) TaskYields(id int) int { return s.tasks[id].yields }

//go:norace
func (s *Sched) CurTask() int {
	if s.cur == nil {
		return -1
	}
	return s.cur.id
}

// StepStamp returns the global step counter, used to stamp history events.
//
//go:norace
func (s *Sched) StepStamp() int64 {
	s.steps++
	return int64(s.steps)
}

//go:norace
func (s *Sched) LastYieldWall() int64 { return s.lastYieldWall }

func nowWall() int64 { return time.Now().UnixNano() }

// SiteName resolves a program counter to file:line of the (line-preserving) instrumented
// source, i.e. of the original source.
func SiteName(pc uintptr) string {
	if pc == 0 {
		return "?"
	}
	f := runtime.FuncForPC(pc - 1)
	if f == nil {
		return "?"
	}
	file, line := f.FileLine(pc - 1)
	// trim to the path inside the module
	for i := len(file) - 1; i >= 0; i-- {
		if i+7 <= len(file) && file[i:i+7] == "klevdb/" {
			file = file[i+7:]
			break
		}
	}
	return file + ":" + itoa(line)
}
