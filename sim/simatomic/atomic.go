// Package simatomic replaces sync/atomic in the instrumented copy: a scheduler yield, then
// the real atomic operation (so the race detector sees the real synchronisation).
package simatomic

import (
	stdatomic "sync/atomic"

	"github.com/klev-dev/klevdb/verifsim/sim"
)

type Int32 struct{ v stdatomic.Int32 }

func (x *Int32) Load() int32                        { sim.Yield(); return x.v.Load() }
func (x *Int32) Store(val int32)                    { sim.Yield(); x.v.Store(val) }
func (x *Int32) Swap(new int32) int32               { sim.Yield(); return x.v.Swap(new) }
func (x *Int32) CompareAndSwap(old, new int32) bool { sim.Yield(); return x.v.CompareAndSwap(old, new) }
func (x *Int32) Add(delta int32) int32              { sim.Yield(); return x.v.Add(delta) }
func (x *Int32) And(mask int32) int32               { sim.Yield(); return x.v.And(mask) }
func (x *Int32) Or(mask int32) int32                { sim.Yield(); return x.v.Or(mask) }

type Int64 struct{ v stdatomic.Int64 }

func (x *Int64) Load() int64                        { sim.Yield(); return x.v.Load() }
func (x *Int64) Store(val int64)                    { sim.Yield(); x.v.Store(val) }
func (x *Int64) Swap(new int64) int64               { sim.Yield(); return x.v.Swap(new) }
func (x *Int64) CompareAndSwap(old, new int64) bool { sim.Yield(); return x.v.CompareAndSwap(old, new) }
func (x *Int64) Add(delta int64) int64              { sim.Yield(); return x.v.Add(delta) }
func (x *Int64) And(mask int64) int64               { sim.Yield(); return x.v.And(mask) }
func (x *Int64) Or(mask int64) int64                { sim.Yield(); return x.v.Or(mask) }

type Uint32 struct{ v stdatomic.Uint32 }

func (x *Uint32) Load() uint32           { sim.Yield(); return x.v.Load() }
func (x *Uint32) Store(val uint32)       { sim.Yield(); x.v.Store(val) }
func (x *Uint32) Swap(new uint32) uint32 { sim.Yield(); return x.v.Swap(new) }
func (x *Uint32) CompareAndSwap(old, new uint32) bool {
	sim.Yield()
	return x.v.CompareAndSwap(old, new)
}
func (x *Uint32) Add(delta uint32) uint32 { sim.Yield(); return x.v.Add(delta) }
func (x *Uint32) And(mask uint32) uint32  { sim.Yield(); return x.v.And(mask) }
func (x *Uint32) Or(mask uint32) uint32   { sim.Yield(); return x.v.Or(mask) }

type Uint64 struct{ v stdatomic.Uint64 }

func (x *Uint64) Load() uint64           { sim.Yield(); return x.v.Load() }
func (x *Uint64) Store(val uint64)       { sim.Yield(); x.v.Store(val) }
func (x *Uint64) Swap(new uint64) uint64 { sim.Yield(); return x.v.Swap(new) }
func (x *Uint64) CompareAndSwap(old, new uint64) bool {
	sim.Yield()
	return x.v.CompareAndSwap(old, new)
}
func (x *Uint64) Add(delta uint64) uint64 { sim.Yield(); return x.v.Add(delta) }
func (x *Uint64) And(mask uint64) uint64  { sim.Yield(); return x.v.And(mask) }
func (x *Uint64) Or(mask uint64) uint64   { sim.Yield(); return x.v.Or(mask) }

type Uintptr struct{ v stdatomic.Uintptr }

func (x *Uintptr) Load() uintptr            { sim.Yield(); return x.v.Load() }
func (x *Uintptr) Store(val uintptr)        { sim.Yield(); x.v.Store(val) }
func (x *Uintptr) Swap(new uintptr) uintptr { sim.Yield(); return x.v.Swap(new) }
func (x *Uintptr) CompareAndSwap(old, new uintptr) bool {
	sim.Yield()
	return x.v.CompareAndSwap(old, new)
}
func (x *Uintptr) Add(delta uintptr) uintptr { sim.Yield(); return x.v.Add(delta) }
func (x *Uintptr) And(mask uintptr) uintptr  { sim.Yield(); return x.v.And(mask) }
func (x *Uintptr) Or(mask uintptr) uintptr   { sim.Yield(); return x.v.Or(mask) }

type Bool struct{ v stdatomic.Bool }

func (x *Bool) Load() bool                        { sim.Yield(); return x.v.Load() }
func (x *Bool) Store(val bool)                    { sim.Yield(); x.v.Store(val) }
func (x *Bool) Swap(new bool) bool                { sim.Yield(); return x.v.Swap(new) }
func (x *Bool) CompareAndSwap(old, new bool) bool { sim.Yield(); return x.v.CompareAndSwap(old, new) }

type Pointer[T any] struct{ v stdatomic.Pointer[T] }

func (x *Pointer[T]) Load() *T       { sim.Yield(); return x.v.Load() }
func (x *Pointer[T]) Store(val *T)   { sim.Yield(); x.v.Store(val) }
func (x *Pointer[T]) Swap(new *T) *T { sim.Yield(); return x.v.Swap(new) }
func (x *Pointer[T]) CompareAndSwap(old, new *T) bool {
	sim.Yield()
	return x.v.CompareAndSwap(old, new)
}

type Value struct{ v stdatomic.Value }

func (x *Value) Load() any                        { sim.Yield(); return x.v.Load() }
func (x *Value) Store(val any)                    { sim.Yield(); x.v.Store(val) }
func (x *Value) Swap(new any) any                 { sim.Yield(); return x.v.Swap(new) }
func (x *Value) CompareAndSwap(old, new any) bool { sim.Yield(); return x.v.CompareAndSwap(old, new) }
