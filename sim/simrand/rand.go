// Package simrand replaces crypto/rand in the instrumented copy: Reader is a deterministic
// stream keyed by the run seed while a simulation is active.
package simrand

import (
	stdrand "crypto/rand"
	"io"

	"github.com/klev-dev/klevdb/verifsim/sim"
)

type reader struct{}

func (reader) Read(b []byte) (int, error) {
	if !sim.Active() {
		return stdrand.Reader.Read(b)
	}
	for i := 0; i < len(b); {
		v := sim.Rand64()
		for k := 0; k < 8 && i < len(b); k++ {
			b[i] = byte(v)
			v >>= 8
			i++
		}
	}
	return len(b), nil
}

var Reader io.Reader = reader{}

func Read(b []byte) (int, error) { return io.ReadFull(Reader, b) }
