package harness

// Rng is the only source of randomness of the harness: splitmix64, seeded per run.
type Rng struct{ s uint64 }

func NewRng(seed uint64) *Rng { return &Rng{s: seed} }

func Mix(a, b uint64) uint64 {
	z := a + 0x9E3779B97F4A7C15*(b+1)
	z = (z ^ (z >> 30)) * 0xBF58476D1CE4E5B9
	z = (z ^ (z >> 27)) * 0x94D049BB133111EB
	return z ^ (z >> 31)
}

func (r *Rng) U64() uint64 {
	r.s += 0x9E3779B97F4A7C15
	z := r.s
	z = (z ^ (z >> 30)) * 0xBF58476D1CE4E5B9
	z = (z ^ (z >> 27)) * 0x94D049BB133111EB
	return z ^ (z >> 31)
}

// Intn returns a value in [0,n).
func (r *Rng) Intn(n int) int {
	if n <= 1 {
		return 0
	}
	return int(r.U64() % uint64(n))
}

// Range returns a value in [lo,hi].
func (r *Rng) Range(lo, hi int) int {
	if hi <= lo {
		return lo
	}
	return lo + r.Intn(hi-lo+1)
}

func (r *Rng) I64(lo, hi int64) int64 {
	if hi <= lo {
		return lo
	}
	return lo + int64(r.U64()%uint64(hi-lo+1))
}

// Chance is true with probability pct/100.
func (r *Rng) Chance(pct int) bool { return r.Intn(100) < pct }

func (r *Rng) Bool() bool { return r.U64()&1 == 1 }

// Pick returns an index according to integer weights.
func (r *Rng) Pick(weights ...int) int {
	t := 0
	for _, w := range weights {
		t += w
	}
	if t <= 0 {
		return 0
	}
	x := r.Intn(t)
	for i, w := range weights {
		if x < w {
			return i
		}
		x -= w
	}
	return len(weights) - 1
}

func (r *Rng) Bytes(n int) []byte {
	b := make([]byte, n)
	for i := 0; i < n; {
		v := r.U64()
		for k := 0; k < 8 && i < n; k++ {
			b[i] = byte(v)
			v >>= 8
			i++
		}
	}
	return b
}

func (r *Rng) Fork() *Rng { return NewRng(r.U64()) }
