// instrument rewrites, in place and line-preserving, every non-test .go file of a scratch
// copy of the module under test:
//
//   - imports of os, sync, sync/atomic, time, crypto/rand are re-pointed to the shim packages
//     under <module>/verifsim/... keeping the same local name;
//   - channel operations (send, receive, close, blocking select) are replaced by calls to the
//     polling helpers of simchan.
//
// Anything it cannot translate is reported and the tool exits 2 (never a verdict).
// Usage: instrument <module root> <module path>
package main

import (
	"bytes"
	"fmt"
	"go/ast"
	"go/parser"
	"go/token"
	"os"
	"path/filepath"
	"sort"
	"strconv"
	"strings"
)

var shimOf = map[string]string{
	"os":           "simos",
	"sync":         "simsync",
	"sync/atomic":  "simatomic",
	"time":         "simtime",
	"crypto/rand":  "simrand",
	"math/rand":    "simmrand",
	"math/rand/v2": "simmrand2",
}

var defaultName = map[string]string{
	"os": "os", "sync": "sync", "sync/atomic": "atomic", "time": "time", "crypto/rand": "rand",
	"math/rand": "rand", "math/rand/v2": "rand",
}

type edit struct {
	pos, end int // byte offsets [pos,end) replaced by text
	text     string
	seq      int
}

type fileCtx struct {
	fset    *token.FileSet
	file    *ast.File
	src     []byte
	edits   []edit
	modPath string
	selN    int
	labelN  int
	usesCh  bool
	errs    []string
	path    string
}

func (c *fileCtx) off(p token.Pos) int  { return c.fset.Position(p).Offset }
func (c *fileCtx) line(p token.Pos) int { return c.fset.Position(p).Line }

func (c *fileCtx) replace(pos, end token.Pos, text string) {
	c.edits = append(c.edits, edit{c.off(pos), c.off(end), text, len(c.edits)})
}
func (c *fileCtx) insert(pos token.Pos, text string) { c.replace(pos, pos, text) }
func (c *fileCtx) text(pos, end token.Pos) string    { return string(c.src[c.off(pos):c.off(end)]) }
func (c *fileCtx) fail(p token.Pos, msg string) {
	c.errs = append(c.errs, fmt.Sprintf("%s:%d: %s", c.path, c.line(p), msg))
}

func main() {
	if len(os.Args) != 3 {
		fmt.Fprintln(os.Stderr, "usage: instrument <module root> <module path>")
		os.Exit(2)
	}
	root, modPath := os.Args[1], os.Args[2]
	var files []string
	err := filepath.WalkDir(root, func(p string, d os.DirEntry, err error) error {
		if err != nil {
			return err
		}
		if d.IsDir() {
			n := d.Name()
			if p != root && (n == "verifsim" || n == "vendor" || n == "testdata" || strings.HasPrefix(n, ".") || strings.HasPrefix(n, "_")) {
				return filepath.SkipDir
			}
			return nil
		}
		if strings.HasSuffix(p, ".go") && !strings.HasSuffix(p, "_test.go") {
			files = append(files, p)
		}
		return nil
	})
	if err != nil {
		fmt.Fprintln(os.Stderr, "instrument:", err)
		os.Exit(2)
	}
	sort.Strings(files)
	bad := false
	nsel, nchan, nimp := 0, 0, 0
	for _, p := range files {
		src, err := os.ReadFile(p)
		if err != nil {
			fmt.Fprintln(os.Stderr, "instrument:", err)
			os.Exit(2)
		}
		fset := token.NewFileSet()
		f, err := parser.ParseFile(fset, p, src, parser.ParseComments|parser.SkipObjectResolution)
		if err != nil {
			fmt.Fprintln(os.Stderr, "instrument: parse:", err)
			os.Exit(2)
		}
		rel, _ := filepath.Rel(root, p)
		c := &fileCtx{fset: fset, file: f, src: src, modPath: modPath, path: rel}
		nimp += c.rewriteImports()
		c.rewriteChannels()
		nsel += c.selN
		if c.usesCh {
			nchan++
			c.addSimchanImport()
		}
		if len(c.errs) > 0 {
			for _, e := range c.errs {
				fmt.Fprintln(os.Stderr, "instrument: unsupported:", e)
			}
			bad = true
			continue
		}
		if len(c.edits) == 0 {
			continue
		}
		out, err := c.apply()
		if err != nil {
			fmt.Fprintln(os.Stderr, "instrument:", rel, err)
			os.Exit(2)
		}
		if bytes.Count(out, []byte("\n")) != bytes.Count(src, []byte("\n")) {
			fmt.Fprintln(os.Stderr, "instrument: internal error: line count changed in", rel)
			os.Exit(2)
		}
		if _, err := parser.ParseFile(token.NewFileSet(), p, out, 0); err != nil {
			fmt.Fprintln(os.Stderr, "instrument: internal error: output does not parse:", err)
			os.Exit(2)
		}
		if err := os.WriteFile(p, out, 0o644); err != nil {
			fmt.Fprintln(os.Stderr, "instrument:", err)
			os.Exit(2)
		}
	}
	if bad {
		os.Exit(2)
	}
	fmt.Printf("instrument: %d files, %d imports re-pointed, %d files with channel ops, %d blocking selects\n", len(files), nimp, nchan, nsel)
}

func (c *fileCtx) apply() ([]byte, error) {
	sort.SliceStable(c.edits, func(i, j int) bool {
		if c.edits[i].pos != c.edits[j].pos {
			return c.edits[i].pos < c.edits[j].pos
		}
		// insertions at the same point keep their creation order; a pure insertion goes
		// before a replacement that starts at the same offset
		ei, ej := c.edits[i], c.edits[j]
		if (ei.pos == ei.end) != (ej.pos == ej.end) {
			return ei.pos == ei.end
		}
		return ei.seq < ej.seq
	})
	var out bytes.Buffer
	cur := 0
	for _, e := range c.edits {
		if e.pos < cur {
			return nil, fmt.Errorf("overlapping edits at offset %d", e.pos)
		}
		out.Write(c.src[cur:e.pos])
		out.WriteString(e.text)
		cur = e.end
	}
	out.Write(c.src[cur:])
	return out.Bytes(), nil
}

func (c *fileCtx) rewriteImports() int {
	n := 0
	for _, imp := range c.file.Imports {
		p, err := strconv.Unquote(imp.Path.Value)
		if err != nil {
			continue
		}
		shim, ok := shimOf[p]
		if !ok {
			continue
		}
		newLit := strconv.Quote(c.modPath + "/verifsim/" + shim)
		if imp.Name == nil {
			newLit = defaultName[p] + " " + newLit
		}
		c.replace(imp.Path.Pos(), imp.Path.End(), newLit)
		n++
	}
	return n
}

func (c *fileCtx) addSimchanImport() {
	lit := " ; import simchan " + strconv.Quote(c.modPath+"/verifsim/simchan")
	// splice after the package clause, on the same line
	c.insert(c.file.Name.End(), lit)
}

// ---- channel rewrite ----

type loopInfo struct {
	stmt  ast.Stmt // *ast.ForStmt or *ast.RangeStmt
	label string   // existing or generated label ("" = none yet)
	lpos  token.Pos
}

func (c *fileCtx) rewriteChannels() {
	for _, d := range c.file.Decls {
		if fd, ok := d.(*ast.FuncDecl); ok && fd.Body != nil {
			c.walkStmt(fd.Body, nil, "")
		} else if gd, ok := d.(*ast.GenDecl); ok {
			// function literals in package-level var initialisers
			ast.Inspect(gd, func(n ast.Node) bool {
				if fl, ok := n.(*ast.FuncLit); ok {
					c.walkStmt(fl.Body, nil, "")
					return false
				}
				return true
			})
		}
	}
}

// walkExpr rewrites channel operations inside an expression.
func (c *fileCtx) walkExpr(e ast.Node) {
	if e == nil {
		return
	}
	ast.Inspect(e, func(n ast.Node) bool {
		switch x := n.(type) {
		case *ast.FuncLit:
			c.walkStmt(x.Body, nil, "")
			return false
		case *ast.UnaryExpr:
			if x.Op == token.ARROW {
				c.usesCh = true
				c.replace(x.OpPos, x.OpPos+2, "simchan.Recv(")
				c.insert(x.X.End(), ")")
			}
		case *ast.CallExpr:
			if id, ok := x.Fun.(*ast.Ident); ok && id.Name == "close" && len(x.Args) == 1 {
				c.usesCh = true
				c.replace(id.Pos(), id.End(), "simchan.Close")
			}
		}
		return true
	})
}

func (c *fileCtx) walkStmts(list []ast.Stmt, loop *loopInfo) {
	for _, s := range list {
		c.walkStmt(s, loop, "")
	}
}

// recv2 handles `v, ok := <-ch` / `v, ok = <-ch` / `var v, ok = <-ch`.
func (c *fileCtx) recv2(lhsN int, rhs []ast.Expr) bool {
	if lhsN == 2 && len(rhs) == 1 {
		if u, ok := rhs[0].(*ast.UnaryExpr); ok && u.Op == token.ARROW {
			c.usesCh = true
			c.replace(u.OpPos, u.OpPos+2, "simchan.Recv2(")
			c.insert(u.X.End(), ")")
			c.walkExpr(u.X)
			return true
		}
	}
	return false
}

func (c *fileCtx) walkStmt(s ast.Stmt, loop *loopInfo, label string) {
	switch x := s.(type) {
	case nil:
	case *ast.BlockStmt:
		c.walkStmts(x.List, loop)
	case *ast.LabeledStmt:
		c.walkStmt(x.Stmt, loop, x.Label.Name)
	case *ast.ExprStmt:
		c.walkExpr(x.X)
	case *ast.SendStmt:
		c.usesCh = true
		c.insert(x.Pos(), "simchan.Send(")
		c.walkExpr(x.Chan)
		c.replace(x.Arrow, x.Arrow+2, ",")
		c.walkExpr(x.Value)
		c.insert(x.End(), ")")
	case *ast.AssignStmt:
		for _, l := range x.Lhs {
			c.walkExpr(l)
		}
		if !c.recv2(len(x.Lhs), x.Rhs) {
			for _, r := range x.Rhs {
				c.walkExpr(r)
			}
		}
	case *ast.DeclStmt:
		if gd, ok := x.Decl.(*ast.GenDecl); ok {
			for _, sp := range gd.Specs {
				if vs, ok := sp.(*ast.ValueSpec); ok {
					if !c.recv2(len(vs.Names), vs.Values) {
						for _, v := range vs.Values {
							c.walkExpr(v)
						}
					}
				}
			}
		}
	case *ast.GoStmt:
		// go f(x)  ->  simchan.Go(func() { f(x) })
		c.usesCh = true
		c.replace(x.Go, x.Go+2, "simchan.Go(func() {")
		c.walkExpr(x.Call)
		c.insert(x.Call.End(), " })")
	case *ast.DeferStmt:
		c.walkExpr(x.Call)
	case *ast.ReturnStmt:
		for _, r := range x.Results {
			c.walkExpr(r)
		}
	case *ast.IncDecStmt:
		c.walkExpr(x.X)
	case *ast.IfStmt:
		c.walkStmt(x.Init, loop, "")
		c.walkExpr(x.Cond)
		c.walkStmt(x.Body, loop, "")
		c.walkStmt(x.Else, loop, "")
	case *ast.ForStmt:
		li := &loopInfo{stmt: x, label: label, lpos: x.For}
		c.walkStmt(x.Init, loop, "")
		c.walkExpr(x.Cond)
		c.walkStmt(x.Post, loop, "")
		c.walkStmt(x.Body, li, "")
	case *ast.RangeStmt:
		li := &loopInfo{stmt: x, label: label, lpos: x.For}
		c.walkExpr(x.X)
		c.walkStmt(x.Body, li, "")
	case *ast.SwitchStmt:
		c.walkStmt(x.Init, loop, "")
		c.walkExpr(x.Tag)
		for _, cc := range x.Body.List {
			cl := cc.(*ast.CaseClause)
			for _, e := range cl.List {
				c.walkExpr(e)
			}
			c.walkStmts(cl.Body, loop)
		}
	case *ast.TypeSwitchStmt:
		c.walkStmt(x.Init, loop, "")
		c.walkStmt(x.Assign, loop, "")
		for _, cc := range x.Body.List {
			c.walkStmts(cc.(*ast.CaseClause).Body, loop)
		}
	case *ast.SelectStmt:
		c.rewriteSelect(x, loop, label)
	case *ast.BranchStmt, *ast.EmptyStmt:
	default:
		c.fail(s.Pos(), fmt.Sprintf("statement %T", s))
	}
}

func oneLine(s string) bool { return !strings.Contains(s, "\n") }

func (c *fileCtx) rewriteSelect(sel *ast.SelectStmt, loop *loopInfo, label string) {
	c.usesCh = true
	hasDefault := false
	for _, cc := range sel.Body.List {
		if cc.(*ast.CommClause).Comm == nil {
			hasDefault = true
		}
	}
	if hasDefault {
		// non-blocking: keep, add a yield in front, still translate the bodies
		if label == "" {
			c.insert(sel.Select, "simchan.Poll(); ")
		}
		for _, cc := range sel.Body.List {
			c.walkStmts(cc.(*ast.CommClause).Body, loop)
		}
		return
	}
	clauses := sel.Body.List
	if len(clauses) == 0 {
		c.replace(sel.Pos(), sel.End(), "simchan.Forever()")
		return
	}
	if len(clauses) > 16 {
		c.fail(sel.Pos(), "select with more than 16 cases")
		return
	}
	c.selN++
	id := c.selN
	sv := fmt.Sprintf("_s%d", id)

	var names, vals []string
	names = append(names, sv)
	vals = append(vals, fmt.Sprintf("simchan.NewSel(%d)", len(clauses)))

	canFallOut := false
	for i, cc := range clauses {
		cl := cc.(*ast.CommClause)
		cv := fmt.Sprintf("_c%d_%d", id, i)
		var comm string
		switch st := cl.Comm.(type) {
		case *ast.SendStmt:
			vv := fmt.Sprintf("_v%d_%d", id, i)
			cht, vt := c.text(st.Chan.Pos(), st.Chan.End()), c.text(st.Value.Pos(), st.Value.End())
			if !oneLine(cht) || !oneLine(vt) || hasChanOp(st.Chan) || hasChanOp(st.Value) {
				c.fail(st.Pos(), "select send case with multi-line or nested channel expression")
				return
			}
			names = append(names, cv, vv)
			vals = append(vals, "("+cht+")", "("+vt+")")
			comm = cv + " <- " + vv
		case *ast.ExprStmt:
			u, ok := st.X.(*ast.UnaryExpr)
			if !ok || u.Op != token.ARROW {
				c.fail(st.Pos(), "select case is not a receive")
				return
			}
			cht := c.text(u.X.Pos(), u.X.End())
			if !oneLine(cht) || hasChanOp(u.X) {
				c.fail(st.Pos(), "select receive case with multi-line or nested channel expression")
				return
			}
			names = append(names, cv)
			vals = append(vals, "("+cht+")")
			comm = "<-" + cv
		case *ast.AssignStmt:
			if len(st.Rhs) != 1 {
				c.fail(st.Pos(), "select case assignment")
				return
			}
			u, ok := st.Rhs[0].(*ast.UnaryExpr)
			if !ok || u.Op != token.ARROW {
				c.fail(st.Pos(), "select case is not a receive")
				return
			}
			cht := c.text(u.X.Pos(), u.X.End())
			lhs := c.text(st.Pos(), u.OpPos)
			if !oneLine(cht) || !oneLine(lhs) || hasChanOp(u.X) {
				c.fail(st.Pos(), "select receive case with multi-line or nested channel expression")
				return
			}
			names = append(names, cv)
			vals = append(vals, "("+cht+")")
			comm = lhs + "<-" + cv
		default:
			c.fail(cl.Pos(), "select comm clause")
			return
		}
		prefix := ""
		if i > 0 {
			prefix = "default: }; "
		}
		if !oneLine(c.text(cl.Case, cl.Colon+1)) {
			c.fail(cl.Pos(), "multi-line select case header")
			return
		}
		c.replace(cl.Case, cl.Colon+1, fmt.Sprintf("%scase %d: select { case %s: %s.Hit();", prefix, i, comm, sv))
		if !terminates(cl.Body) || hasBreakTo(cl.Body, label) {
			canFallOut = true
		}
		// bodies: translate nested statements; re-target unlabelled continue
		c.retargetContinue(cl.Body, loop)
		c.walkStmts(cl.Body, loop)
	}
	header := fmt.Sprintf("for %s := %s; ; { switch %s.Next() {", strings.Join(names, ", "), strings.Join(vals, ", "), sv)
	if !oneLine(c.text(sel.Select, sel.Body.Lbrace+1)) {
		c.fail(sel.Pos(), "multi-line select header")
		return
	}
	c.replace(sel.Select, sel.Body.Lbrace+1, header)
	if canFallOut {
		c.replace(sel.Body.Rbrace, sel.Body.Rbrace+1, fmt.Sprintf("default: } }; if %s.Done() { break } }", sv))
	} else {
		c.replace(sel.Body.Rbrace, sel.Body.Rbrace+1, "default: } } }")
	}
}

func hasChanOp(e ast.Expr) bool {
	found := false
	ast.Inspect(e, func(n ast.Node) bool {
		switch x := n.(type) {
		case *ast.UnaryExpr:
			if x.Op == token.ARROW {
				found = true
			}
		case *ast.FuncLit:
			found = true // keep it simple: no literals in hoisted expressions
		}
		return !found
	})
	return found
}

// retargetContinue rewrites unlabelled continue statements that target the loop enclosing
// the select (they would otherwise bind to the generated for statement).
func (c *fileCtx) retargetContinue(body []ast.Stmt, loop *loopInfo) {
	var visit func(n ast.Node) bool
	visit = func(n ast.Node) bool {
		switch x := n.(type) {
		case *ast.ForStmt, *ast.RangeStmt, *ast.FuncLit:
			return false
		case *ast.BranchStmt:
			if x.Tok == token.CONTINUE && x.Label == nil {
				if loop == nil {
					c.fail(x.Pos(), "continue outside loop")
					return false
				}
				if loop.label == "" {
					c.labelN++
					loop.label = fmt.Sprintf("_L%d_%d", c.line(loop.lpos), c.labelN)
					c.insert(loop.lpos, loop.label+": ")
				}
				c.replace(x.Pos(), x.End(), "continue "+loop.label)
			}
		}
		return true
	}
	for _, s := range body {
		ast.Inspect(s, visit)
	}
}

// hasBreakTo reports whether the statements contain a break that leaves the select: an
// unlabelled break not nested in an inner for/switch/select, or a break to the select's label.
func hasBreakTo(body []ast.Stmt, label string) bool {
	found := false
	var visit func(n ast.Node, depth int)
	visit = func(n ast.Node, depth int) {
		if n == nil || found {
			return
		}
		switch x := n.(type) {
		case *ast.BranchStmt:
			if x.Tok == token.BREAK {
				if x.Label == nil && depth == 0 {
					found = true
				}
				if x.Label != nil && label != "" && x.Label.Name == label {
					found = true
				}
			}
			return
		case *ast.FuncLit:
			return
		case *ast.ForStmt, *ast.RangeStmt, *ast.SwitchStmt, *ast.TypeSwitchStmt, *ast.SelectStmt:
			ast.Inspect(n, func(m ast.Node) bool {
				if m == n || m == nil {
					return true
				}
				if s, ok := m.(ast.Stmt); ok {
					visit(s, depth+1)
					return false
				}
				return true
			})
			return
		}
		ast.Inspect(n, func(m ast.Node) bool {
			if m == n || m == nil {
				return true
			}
			if s, ok := m.(ast.Stmt); ok {
				visit(s, depth)
				return false
			}
			return true
		})
	}
	for _, s := range body {
		visit(s, 0)
	}
	return found
}

// terminates implements Go's "terminating statement" rule syntactically (conservative:
// when unsure it answers false).
func terminates(list []ast.Stmt) bool {
	for len(list) > 0 {
		if _, ok := list[len(list)-1].(*ast.EmptyStmt); ok {
			list = list[:len(list)-1]
			continue
		}
		break
	}
	if len(list) == 0 {
		return false
	}
	return terminating(list[len(list)-1], "")
}

func terminating(s ast.Stmt, label string) bool {
	switch x := s.(type) {
	case *ast.ReturnStmt:
		return true
	case *ast.BranchStmt:
		return x.Tok == token.GOTO
	case *ast.ExprStmt:
		if call, ok := x.X.(*ast.CallExpr); ok {
			if id, ok := call.Fun.(*ast.Ident); ok && id.Name == "panic" {
				return true
			}
		}
		return false
	case *ast.BlockStmt:
		return terminates(x.List)
	case *ast.IfStmt:
		if x.Else == nil {
			return false
		}
		return terminates(x.Body.List) && terminating(x.Else, "")
	case *ast.ForStmt:
		if x.Cond != nil {
			return false
		}
		return !hasBreakTo(x.Body.List, label)
	case *ast.LabeledStmt:
		return terminating(x.Stmt, x.Label.Name)
	case *ast.SwitchStmt:
		return switchTerminates(x.Body, label)
	case *ast.TypeSwitchStmt:
		return switchTerminates(x.Body, label)
	case *ast.SelectStmt:
		for _, cc := range x.Body.List {
			cl := cc.(*ast.CommClause)
			if !terminates(cl.Body) || hasBreakTo(cl.Body, label) {
				return false
			}
		}
		return true
	}
	return false
}

func switchTerminates(body *ast.BlockStmt, label string) bool {
	hasDefault := false
	for _, cc := range body.List {
		cl := cc.(*ast.CaseClause)
		if cl.List == nil {
			hasDefault = true
		}
		if hasBreakTo(cl.Body, label) {
			return false
		}
		if !terminates(cl.Body) {
			// a fallthrough as last statement is fine
			if n := len(cl.Body); n > 0 {
				if b, ok := cl.Body[n-1].(*ast.BranchStmt); ok && b.Tok == token.FALLTHROUGH {
					continue
				}
			}
			return false
		}
	}
	return hasDefault
}
