// Package simmrand2 replaces math/rand/v2 in the instrumented copy (see simmrand).
package simmrand2

import (
	stdrand "math/rand/v2"

	"github.com/klev-dev/klevdb/verifsim/sim"
)

type src struct{}

func (src) Uint64() uint64 {
	if sim.Active() {
		return sim.Rand64()
	}
	return stdrand.Uint64()
}

var r = stdrand.New(src{})

func ExpFloat64() float64                { return r.ExpFloat64() }
func Float32() float32                   { return r.Float32() }
func Float64() float64                   { return r.Float64() }
func Int() int                           { return r.Int() }
func Int32() int32                       { return r.Int32() }
func Int32N(n int32) int32               { return r.Int32N(n) }
func Int64() int64                       { return r.Int64() }
func Int64N(n int64) int64               { return r.Int64N(n) }
func IntN(n int) int                     { return r.IntN(n) }
func NormFloat64() float64               { return r.NormFloat64() }
func Perm(n int) []int                   { return r.Perm(n) }
func Shuffle(n int, swap func(i, j int)) { r.Shuffle(n, swap) }
func Uint32() uint32                     { return r.Uint32() }
func Uint32N(n uint32) uint32            { return r.Uint32N(n) }
func Uint64() uint64                     { return r.Uint64() }
func Uint64N(n uint64) uint64            { return r.Uint64N(n) }
func UintN(n uint) uint                  { return r.UintN(n) }
func Uint() uint                         { return r.Uint() }

// N returns a pseudo-random number in the half-open interval [0,n) from the run's PRNG.
func N[Int interface {
	~int | ~int8 | ~int16 | ~int32 | ~int64 | ~uint | ~uint8 | ~uint16 | ~uint32 | ~uint64 | ~uintptr
}](n Int) Int {
	if n <= 0 {
		panic("invalid argument to N")
	}
	return Int(r.Uint64N(uint64(n)))
}
