// Package simos replaces package os in the instrumented copy of the code under test.
// Every call is a scheduler yield point; every successful mutating call is recorded in the
// run's file-system trace. I/O itself is the kernel's, on real files.
package simos

import (
	"io"
	"io/fs"
	stdos "os"
	"syscall"
	"time"

	"github.com/klev-dev/klevdb/verifsim/sim"
)

// File wraps a real *os.File.
type File struct {
	f      *stdos.File
	fd     int32 // trace id, 0 = not traced
	path   string
	append bool
	dir    bool
}

func wrap(f *stdos.File) *File {
	if f == nil {
		return nil
	}
	return &File{f: f}
}

var (
	Stdin  = wrap(stdos.Stdin)
	Stdout = wrap(stdos.Stdout)
	Stderr = wrap(stdos.Stderr)
)

// Real returns the underlying *os.File (harness use).
func (f *File) Real() *stdos.File { return f.f }

func Open(name string) (*File, error) { return openFile(name, stdos.O_RDONLY, 0) }

func Create(name string) (*File, error) {
	return openFile(name, stdos.O_RDWR|stdos.O_CREATE|stdos.O_TRUNC, 0666)
}

func OpenFile(name string, flag int, perm FileMode) (*File, error) {
	return openFile(name, flag, perm)
}

func openFile(name string, flag int, perm FileMode) (*File, error) {
	if !sim.Active() {
		f, err := stdos.OpenFile(name, flag, perm)
		if err != nil {
			return nil, err
		}
		return wrap(f), nil
	}
	sim.YieldAt(4)
	tr := sim.FS
	existed := false
	var oldSize int64
	if tr != nil && flag&(stdos.O_CREATE|stdos.O_TRUNC) != 0 {
		if st, err := stdos.Stat(name); err == nil {
			existed = true
			oldSize = st.Size()
		}
	}
	f, err := stdos.OpenFile(name, flag, perm)
	if err != nil {
		return nil, err
	}
	w := &File{f: f, path: name, append: flag&stdos.O_APPEND != 0}
	if tr != nil {
		if st, err := f.Stat(); err == nil && st.IsDir() {
			w.dir = true
		}
		w.fd = tr.NewFd()
		tr.Add(sim.FSEvent{Kind: sim.EvOpen, Fd: w.fd, Path: name, Append: w.append,
			Created:   !existed && flag&stdos.O_CREATE != 0,
			Truncated: existed && flag&stdos.O_TRUNC != 0 && oldSize > 0})
	}
	return w, nil
}

func CreateTemp(dir, pattern string) (*File, error) {
	f, err := stdos.CreateTemp(dir, pattern)
	if err != nil {
		return nil, err
	}
	w := &File{f: f, path: f.Name()}
	if sim.Active() {
		sim.Yield()
		if tr := sim.FS; tr != nil {
			w.fd = tr.NewFd()
			tr.Add(sim.FSEvent{Kind: sim.EvOpen, Fd: w.fd, Path: w.path, Created: true})
		}
	}
	return w, nil
}

func NewFile(fd uintptr, name string) *File { return wrap(stdos.NewFile(fd, name)) }

func Pipe() (r *File, w *File, err error) {
	rr, ww, err := stdos.Pipe()
	if err != nil {
		return nil, nil, err
	}
	return wrap(rr), wrap(ww), nil
}

func (f *File) Name() string { return f.f.Name() }
func (f *File) Fd() uintptr  { return f.f.Fd() }

func (f *File) Close() error {
	if f == nil {
		return stdos.ErrInvalid
	}
	sim.Yield()
	err := f.f.Close()
	if err == nil && f.fd != 0 {
		if tr := sim.FS; tr != nil {
			tr.Add(sim.FSEvent{Kind: sim.EvClose, Fd: f.fd, Path: f.path})
		}
	}
	return err
}

func (f *File) Read(b []byte) (int, error) {
	sim.Yield()
	return f.f.Read(b)
}

func (f *File) ReadAt(b []byte, off int64) (int, error) {
	sim.Yield()
	return f.f.ReadAt(b, off)
}

func (f *File) Seek(offset int64, whence int) (int64, error) {
	sim.Yield()
	return f.f.Seek(offset, whence)
}

func (f *File) Stat() (FileInfo, error) {
	sim.Yield()
	return f.f.Stat()
}

func (f *File) recordWrite(b []byte, n int, off int64) {
	if n <= 0 || f.fd == 0 {
		return
	}
	if tr := sim.FS; tr != nil {
		d := make([]byte, n)
		copy(d, b[:n])
		tr.Add(sim.FSEvent{Kind: sim.EvWrite, Fd: f.fd, Path: f.path, Off: off, Data: d, Append: f.append})
	}
}

func (f *File) curOff() int64 {
	if f.append {
		return -1
	}
	off, err := f.f.Seek(0, io.SeekCurrent)
	if err != nil {
		return -1
	}
	return off
}

func (f *File) Write(b []byte) (int, error) {
	sim.Yield()
	var off int64 = -1
	if f.fd != 0 && sim.FS != nil {
		off = f.curOff()
	}
	n, err := f.f.Write(b)
	f.recordWrite(b, n, off)
	return n, err
}

func (f *File) WriteString(s string) (int, error) { return f.Write([]byte(s)) }

func (f *File) WriteAt(b []byte, off int64) (int, error) {
	sim.Yield()
	n, err := f.f.WriteAt(b, off)
	f.recordWrite(b, n, off)
	return n, err
}

// ReadFrom and WriteTo go through Read/Write so that every byte passes the tap.
func (f *File) ReadFrom(r io.Reader) (int64, error) {
	return io.Copy(struct{ io.Writer }{f}, r)
}

func (f *File) WriteTo(w io.Writer) (int64, error) {
	return io.Copy(w, struct{ io.Reader }{f})
}

func (f *File) Sync() error {
	sim.Yield()
	err := f.f.Sync()
	if err == nil && f.fd != 0 {
		if tr := sim.FS; tr != nil {
			k := sim.EvFsync
			if f.dir {
				k = sim.EvFsyncDir
			}
			tr.Add(sim.FSEvent{Kind: k, Fd: f.fd, Path: f.path})
		}
	}
	return err
}

func (f *File) Truncate(size int64) error {
	sim.Yield()
	err := f.f.Truncate(size)
	if err == nil && f.fd != 0 {
		if tr := sim.FS; tr != nil {
			tr.Add(sim.FSEvent{Kind: sim.EvTruncate, Fd: f.fd, Path: f.path, Len: size})
		}
	}
	return err
}

func (f *File) Chdir() error                      { return f.f.Chdir() }
func (f *File) Chmod(mode FileMode) error         { return f.f.Chmod(mode) }
func (f *File) Chown(uid, gid int) error          { return f.f.Chown(uid, gid) }
func (f *File) ReadDir(n int) ([]DirEntry, error) { sim.Yield(); return f.f.ReadDir(n) }
func (f *File) Readdir(n int) ([]FileInfo, error) { sim.Yield(); return f.f.Readdir(n) }
func (f *File) Readdirnames(n int) ([]string, error) {
	sim.Yield()
	return f.f.Readdirnames(n)
}
func (f *File) SetDeadline(t time.Time) error      { return f.f.SetDeadline(t) }
func (f *File) SetReadDeadline(t time.Time) error  { return f.f.SetReadDeadline(t) }
func (f *File) SetWriteDeadline(t time.Time) error { return f.f.SetWriteDeadline(t) }
func (f *File) SyscallConn() (syscall.RawConn, error) {
	return f.f.SyscallConn()
}

// ---- package-level functions that mutate or observe the directory ----

func Rename(oldpath, newpath string) error {
	sim.Yield()
	err := stdos.Rename(oldpath, newpath)
	if err == nil {
		if tr := sim.FS; tr != nil {
			tr.Add(sim.FSEvent{Kind: sim.EvRename, Path: oldpath, Path2: newpath})
		}
	}
	return err
}

func Remove(name string) error {
	sim.Yield()
	err := stdos.Remove(name)
	if err == nil {
		if tr := sim.FS; tr != nil {
			tr.Add(sim.FSEvent{Kind: sim.EvRemove, Path: name})
		}
	}
	return err
}

func RemoveAll(path string) error {
	sim.Yield()
	err := stdos.RemoveAll(path)
	if err == nil {
		if tr := sim.FS; tr != nil {
			tr.Add(sim.FSEvent{Kind: sim.EvRemoveAll, Path: path})
		}
	}
	return err
}

func Mkdir(name string, perm FileMode) error {
	sim.Yield()
	err := stdos.Mkdir(name, perm)
	if err == nil {
		if tr := sim.FS; tr != nil {
			tr.Add(sim.FSEvent{Kind: sim.EvMkdir, Path: name})
		}
	}
	return err
}

func MkdirAll(path string, perm FileMode) error {
	sim.Yield()
	_, serr := stdos.Stat(path)
	err := stdos.MkdirAll(path, perm)
	if err == nil && serr != nil {
		if tr := sim.FS; tr != nil {
			tr.Add(sim.FSEvent{Kind: sim.EvMkdir, Path: path})
		}
	}
	return err
}

func Link(oldname, newname string) error {
	sim.Yield()
	err := stdos.Link(oldname, newname)
	if err == nil {
		if tr := sim.FS; tr != nil {
			tr.Add(sim.FSEvent{Kind: sim.EvLink, Path: oldname, Path2: newname})
		}
	}
	return err
}

func Truncate(name string, size int64) error {
	sim.Yield()
	err := stdos.Truncate(name, size)
	if err == nil {
		if tr := sim.FS; tr != nil {
			tr.Add(sim.FSEvent{Kind: sim.EvTruncate, Fd: -1, Path: name, Len: size})
		}
	}
	return err
}

func WriteFile(name string, data []byte, perm FileMode) error {
	f, err := openFile(name, stdos.O_WRONLY|stdos.O_CREATE|stdos.O_TRUNC, perm)
	if err != nil {
		return err
	}
	_, err = f.Write(data)
	if err1 := f.Close(); err1 != nil && err == nil {
		err = err1
	}
	return err
}

func Chtimes(name string, atime time.Time, mtime time.Time) error {
	sim.Yield()
	err := stdos.Chtimes(name, atime, mtime)
	if err == nil {
		if tr := sim.FS; tr != nil {
			tr.Add(sim.FSEvent{Kind: sim.EvChtimes, Path: name})
		}
	}
	return err
}

func Stat(name string) (FileInfo, error) {
	sim.Yield()
	return stdos.Stat(name)
}

func Lstat(name string) (FileInfo, error) {
	sim.Yield()
	return stdos.Lstat(name)
}

func ReadDir(name string) ([]DirEntry, error) {
	sim.Yield()
	return stdos.ReadDir(name)
}

func ReadFile(name string) ([]byte, error) {
	sim.Yield()
	return stdos.ReadFile(name)
}

var _ fs.FileInfo = FileInfo(nil)
