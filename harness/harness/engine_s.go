package harness

import (
	"context"
	"errors"
	"fmt"
	"os"
	"path/filepath"
	"sort"
	"strings"
	"sync"
	"time"

	"github.com/klev-dev/klevdb"
	"github.com/klev-dev/klevdb/verifsim/porcupine"
	"github.com/klev-dev/klevdb/verifsim/sim"
)

// ---- task calls and history ----

// hOp is one recorded call of the concurrent history.
type hOp struct {
	Task int
	Idx  int
	In   Op
	Call int64
	Ret  int64
	Out  hOut
	Done bool
}

type hOut struct {
	Next   int64
	Msgs   []Msg   // returned messages (Consume, Get, ...)
	Pub    []Msg   // Publish: the batch with assigned offsets and times
	Offs   []int64 // Delete: reported offsets
	Err    error
	ErrC   ErrClass
	ErrStr string
}

func (o hOut) String() string {
	if o.Err != nil {
		return "err=" + o.ErrStr
	}
	s := fmt.Sprintf("next=%d", o.Next)
	if o.Msgs != nil {
		s += fmt.Sprintf(" msgs=%v", offTimes(o.Msgs))
	}
	if o.Pub != nil {
		s += fmt.Sprintf(" assigned=%v", offTimes(o.Pub))
	}
	if o.Offs != nil {
		s += fmt.Sprintf(" deleted=%v", o.Offs)
	}
	return s
}

// offTimes lists offsets with their times relative to the default epoch (us).
func offTimes(ms []Msg) string {
	var b strings.Builder
	b.WriteString("[")
	for i, m := range ms {
		if i > 0 {
			b.WriteString(" ")
		}
		fmt.Fprintf(&b, "%d@%d", m.Off, m.US-defaultStartUS)
	}
	b.WriteString("]")
	return b.String()
}

func describeOp(in Op) string {
	switch in.K {
	case "pub":
		return fmt.Sprintf("Publish(%d msgs)", len(in.Msgs))
	case "consume", "consume_b":
		n := "Consume"
		if in.K == "consume_b" {
			n = "ConsumeBlocking"
		}
		return fmt.Sprintf("%s(%d,%d)", n, in.A, in.B)
	case "consume_key", "consume_key_b":
		n := "ConsumeByKey"
		if in.K == "consume_key_b" {
			n = "ConsumeByKeyBlocking"
		}
		return fmt.Sprintf("%s(%x,%d,%d)", n, in.Key, in.A, in.B)
	case "get":
		return fmt.Sprintf("Get(%d)", in.A)
	case "get_key":
		return fmt.Sprintf("GetByKey(%x)", in.Key)
	case "get_time":
		return fmt.Sprintf("GetByTime(run-start%+dus)", in.A)
	case "del":
		return fmt.Sprintf("Delete(%v)", in.Sel.Abs)
	case "gc":
		return fmt.Sprintf("GC(%dus)", in.A)
	case "clock":
		return fmt.Sprintf("clock%+dus", in.A)
	}
	return in.K
}

// doCall performs one call of a task script against the shared log. It touches no harness
// state shared between tasks.
var errCancelCause = errors.New("verifsim: cause given to the cancel function")

func doCall(l klevdb.Log, bl klevdb.BlockingLog, ctxs []context.Context, cfg *RunCfg, in *Op) (out hOut) {
	err := guard(func() error {
		switch in.K {
		case "pub":
			ks := make([]klevdb.Message, len(in.Msgs))
			for i, m := range in.Msgs {
				ks[i] = klevdb.Message{Offset: m.Junk, Key: m.Key, Value: m.Val}
			}
			var n int64
			var e error
			if bl != nil {
				n, e = bl.Publish(ks)
			} else {
				n, e = l.Publish(ks)
			}
			out.Next = n
			if e == nil {
				out.Pub = fromKs(ks)
				if out.Pub == nil {
					out.Pub = []Msg{}
				}
			}
			return e
		case "consume":
			n, km, e := l.Consume(in.A, in.B)
			out.Next, out.Msgs = n, nonNil(fromKs(km))
			return e
		case "consume_b":
			n, km, e := bl.ConsumeBlocking(ctxs[in.H], in.A, in.B)
			out.Next, out.Msgs = n, nonNil(fromKs(km))
			return e
		case "consume_key":
			n, km, e := l.ConsumeByKey(in.Key, in.A, in.B)
			out.Next, out.Msgs = n, nonNil(fromKs(km))
			return e
		case "consume_key_b":
			n, km, e := bl.ConsumeByKeyBlocking(ctxs[in.H], in.Key, in.A, in.B)
			out.Next, out.Msgs = n, nonNil(fromKs(km))
			return e
		case "get":
			km, e := l.Get(in.A)
			if e == nil {
				out.Msgs = []Msg{fromK(km)}
			}
			return e
		case "get_key":
			km, e := l.GetByKey(in.Key)
			if e == nil {
				out.Msgs = []Msg{fromK(km)}
			}
			return e
		case "get_time":
			km, e := l.GetByTime(time.UnixMicro(cfg.StartUS + in.A))
			if e == nil {
				out.Msgs = []Msg{fromK(km)}
			}
			return e
		case "del":
			km, _, e := l.Delete(offsetSet(in.Sel.Abs))
			out.Offs = msgOffs(fromKs(km))
			out.Msgs = fromKs(km)
			if out.Offs == nil {
				out.Offs = []int64{}
			}
			return e
		case "sync":
			n, e := l.Sync()
			out.Next = n
			return e
		case "next":
			n, e := l.NextOffset()
			out.Next = n
			return e
		case "stat":
			_, e := l.Stat()
			return e
		case "gc":
			return l.GC(time.Duration(in.A) * time.Microsecond)
		case "clock":
			sim.Advance(time.Duration(in.A) * time.Microsecond)
			return nil
		}
		return fmt.Errorf("unknown call %q", in.K)
	})
	out.Err = err
	out.ErrC = classify(err)
	if err != nil {
		out.ErrStr = err.Error()
	}
	return out
}

func nonNil(m []Msg) []Msg {
	if m == nil {
		return []Msg{}
	}
	return m
}

// ---- sequential specification for porcupine ----

type lmsg struct {
	Off int64
	US  int64
	ID  string // the unique value
	Key string
}

// lstate is encoded as a string so that porcupine can compare states with ==.
type lstate string

func encState(next int64, live []lmsg) lstate {
	var b strings.Builder
	fmt.Fprintf(&b, "%d|", next)
	for _, m := range live {
		fmt.Fprintf(&b, "%d:%d:%s:%s,", m.Off, m.US, m.ID, m.Key)
	}
	return lstate(b.String())
}

func decState(s lstate) *Model {
	parts := strings.SplitN(string(s), "|", 2)
	m := NewModel(true, true)
	fmt.Sscan(parts[0], &m.Next)
	for _, f := range strings.Split(parts[1], ",") {
		if f == "" {
			continue
		}
		x := strings.SplitN(f, ":", 4)
		var mm Msg
		fmt.Sscan(x[0], &mm.Off)
		fmt.Sscan(x[1], &mm.US)
		mm.Val = []byte(x[2])
		if x[3] != "" {
			mm.Key = []byte(x[3])
		}
		m.Live = append(m.Live, mm)
	}
	return m
}

func encModel(m *Model) lstate {
	live := make([]lmsg, len(m.Live))
	for i, x := range m.Live {
		live[i] = lmsg{Off: x.Off, US: x.US, ID: string(x.Val), Key: string(x.Key)}
	}
	return encState(m.Next, live)
}

type sIn struct {
	Op   Op
	Keys bool
	Tim  bool
}

func sameMsgs(a, b []Msg) bool {
	if len(a) != len(b) {
		return false
	}
	for i := range a {
		if !sameMsg(a[i], b[i]) {
			return false
		}
	}
	return true
}

// stepModel is the sequential specification: is out a legal result of in at state m, and
// what is the state afterwards (m is modified in place when the call mutates).
func stepModel(m *Model, in *sIn, out *hOut) bool {
	op := &in.Op
	switch op.K {
	case "pub":
		if out.Err != nil {
			return false
		}
		n := int64(len(op.Msgs))
		if out.Next != m.Next+n || int64(len(out.Pub)) != n {
			return false
		}
		for i, p := range out.Pub {
			if p.Off != m.Next+int64(i) {
				return false
			}
			m.Live = append(m.Live, Msg{Off: p.Off, US: p.US, Key: p.Key, Val: p.Val})
		}
		m.Next += n
		return true
	case "consume", "consume_b":
		c, _ := checkConsume(m, op.A, op.B, out.Next, out.Msgs, out.Err)
		return c == ""
	case "get":
		switch {
		case op.A == klevdb.OffsetOldest || op.A == klevdb.OffsetNewest:
			if len(m.Live) == 0 {
				return out.ErrC == EInvalidOffset
			}
			w := m.Live[0]
			if op.A == klevdb.OffsetNewest {
				w = m.Live[len(m.Live)-1]
			}
			return out.Err == nil && len(out.Msgs) == 1 && sameMsg(out.Msgs[0], w)
		case op.A < 0:
			return true
		}
		if w, ok := m.Get(op.A); ok {
			return out.Err == nil && len(out.Msgs) == 1 && sameMsg(out.Msgs[0], w)
		}
		if op.A < m.Next {
			return out.ErrC == ENotFound
		}
		return out.ErrC == EInvalidOffset
	case "get_key":
		if !in.Keys {
			return out.ErrC == ENoIndex
		}
		if w, ok := m.LastByKey(op.Key); ok {
			return out.Err == nil && len(out.Msgs) == 1 && sameMsg(out.Msgs[0], w)
		}
		return out.ErrC == ENotFound
	case "get_time":
		if !in.Tim {
			return out.ErrC == ENoIndex
		}
		ts := op.C // absolute query time, filled in by the harness
		if w, ok := m.FirstAtOrAfter(ts); ok {
			return out.Err == nil && len(out.Msgs) == 1 && sameMsg(out.Msgs[0], w)
		}
		if len(m.Live) == 0 {
			return out.ErrC == ENotFound || out.ErrC == EInvalidOffset
		}
		return out.ErrC == ENotFound
	case "consume_key", "consume_key_b":
		if !in.Keys {
			return out.ErrC == ENoIndex
		}
		if op.A > m.Next {
			// what the key cursor does beyond NextOffset is not specified
			return true
		}
		if out.Err != nil {
			return false
		}
		if op.A == klevdb.OffsetNewest {
			return len(out.Msgs) == 0 && out.Next == m.Next
		}
		from := op.A
		if from < 0 {
			from = 0
		}
		matches := m.KeyMatchesFrom(op.Key, from)
		if int64(len(out.Msgs)) > op.B {
			return false
		}
		// returned messages: live matches at or after the offset, increasing
		mi := 0
		for _, g := range out.Msgs {
			for mi < len(matches) && matches[mi].Off < g.Off {
				mi++
			}
			if mi >= len(matches) || !sameMsg(matches[mi], g) {
				return false
			}
			mi++
		}
		if len(out.Msgs) > 0 {
			return out.Next == out.Msgs[len(out.Msgs)-1].Off+1
		}
		if len(matches) > 0 {
			return out.Next <= matches[0].Off
		}
		return out.Next <= m.Next
	case "del":
		req := boolSet(op.Sel.Abs)
		if out.Err != nil {
			// tolerated when the smallest requested offset is not live, and nothing was deleted
			lo := op.Sel.Abs[0]
			return len(out.Offs) == 0 && !m.IsLive(lo) && out.ErrC != EOther
		}
		for i, o := range out.Offs {
			w, ok := m.Get(o)
			if !ok || !req[o] || !sameMsg(w, out.Msgs[i]) {
				return false
			}
		}
		m.Remove(boolSet(out.Offs))
		return true
	case "sync", "next":
		return out.Err == nil && out.Next == m.Next
	case "stat", "gc", "clock":
		return out.Err == nil
	}
	return false
}

func porcupineModel(init lstate) porcupine.Model {
	return porcupine.Model{
		Init: func() interface{} { return init },
		Step: func(state, input, output interface{}) (bool, interface{}) {
			m := decState(state.(lstate))
			in := input.(*sIn)
			out := output.(*hOut)
			mutates := in.Op.K == "pub" || in.Op.K == "del"
			ok := stepModel(m, in, out)
			if !ok {
				return false, state
			}
			if mutates {
				return true, encModel(m)
			}
			return true, state
		},
		Equal: func(a, b interface{}) bool { return a.(lstate) == b.(lstate) },
		DescribeOperation: func(in, out interface{}) string {
			return describeOp(in.(*sIn).Op) + " -> " + out.(*hOut).String()
		},
	}
}

// ---- the run ----

type sRun struct {
	def   *PropDef
	plan  *Plan
	res   *RunResult
	base  string
	r     *Run
	hist  [][]hOp
	ctxs  []context.Context
	cncl  []context.CancelFunc
	state sShared
	// C18: stamps of the Close call (0 = none)
	closeCall int64
	closeAt   int64
}

// sShared is harness state shared between tasks; it is only touched inside //go:norace
// functions (the controller reads what waiters write) so that it stays invisible to the
// race detector, like the scheduler core.
type sShared struct {
	done      [64]int32 // task finished its script
	returned  [64]int32 // C18 waiter returned
	cancelled [64]int32 // C18 context cancelled (by index)
	closed    int32
}

//go:norace
func (s *sShared) set(a *[64]int32, i int) { a[i] = 1 }

//go:norace
func (s *sShared) get(a *[64]int32, i int) bool { return a[i] != 0 }

//go:norace
func (s *sShared) setClosed() { s.closed = 1 }

//go:norace
func (s *sShared) isClosed() bool { return s.closed != 0 }

func schedCfg(p *SchedP) sim.Config {
	c := sim.Config{Strategy: p.Strategy, PCTDepth: p.PCTDepth, PCTLen: p.PCTLen, HoldTask: p.HoldTask, HoldYield: p.HoldYield,
		HoldTask2: p.HoldTask2, HoldYield2: p.HoldYield2, Preempts: p.Preempts, Decisions: p.Decisions, MaxSteps: 400000}
	if c.HoldTask2 == 0 && c.HoldYield2 == 0 {
		c.HoldTask2 = -1
	}
	return c
}

func runPlanS(def *PropDef, p *Plan, scratch string) *RunResult {
	base := filepath.Join(scratch, fmt.Sprintf("r%d", p.Run))
	_ = os.RemoveAll(base)
	defer os.RemoveAll(base)
	res := &RunResult{Run: p.Run, Seed: p.Seed, Evals: 1, Probes: map[string]int{}, Faults: map[string]int{}}
	sr := &sRun{def: def, plan: p, res: res, base: base}

	// phase A: sequential set-up (pre-populated segments), single task
	r := NewRun(p, base, Hooks{})
	sr.r = r
	sim.BeginInline(p.Seed, p.Cfg.StartUS)
	if err := os.MkdirAll(base, 0o755); err != nil {
		panic(infraErr{err})
	}
	if err := r.open(p.Cfg.Open); err != nil {
		sim.End()
		res.Abort = "open: " + err.Error()
		return res
	}
	for i := range p.Ops {
		r.Step = i + 1
		r.execOp(&p.Ops[i])
		if r.stopped() {
			break
		}
	}
	clock := sim.NowUS()
	sim.End()
	if r.stopped() || r.L == nil {
		res.Abort = "setup: " + r.Abort
		if r.L != nil {
			_ = r.L.Close()
		}
		return res
	}
	var bl klevdb.BlockingLog
	if def.ID == "C18" {
		var err error
		bl, err = wrapBlocking(r.L)
		if err != nil {
			res.Abort = "WrapBlocking: " + err.Error()
			_ = r.L.Close()
			return res
		}
	}
	init := encModel(r.M)

	// phase B: the tasks, under the serialized scheduler
	nt := len(p.Tasks)
	sr.hist = make([][]hOp, nt)
	for i := 0; i < 16; i++ {
		if i%2 == 1 {
			// a context that ends with a cause: the call must still fail with the context's
			// error (context.Canceled), not with whatever the canceller passed as the cause
			c, cf := context.WithCancelCause(context.Background())
			sr.ctxs, sr.cncl = append(sr.ctxs, c), append(sr.cncl, func() { cf(errCancelCause) })
			continue
		}
		c, cf := context.WithCancel(context.Background())
		sr.ctxs, sr.cncl = append(sr.ctxs, c), append(sr.cncl, cf)
	}
	s := sim.Begin(Mix(p.Seed, 4242), clock, schedCfg(p.Sched))
	for i := 0; i < nt; i++ {
		s.AddTask(fmt.Sprintf("task%d", i))
	}
	var wg sync.WaitGroup
	for i := 0; i < nt; i++ {
		wg.Add(1)
		go func(ti int) {
			defer wg.Done()
			s.TaskBegin(ti)
			h := make([]hOp, 0, len(p.Tasks[ti]))
			for ci := range p.Tasks[ti] {
				in := p.Tasks[ti][ci]
				if def.ID == "C18" && sr.controllerOp(s, ti, &in, r.L, bl) {
					continue
				}
				if def.ID == "C18" && in.K == "consume_b" && in.A <= -1000 {
					next, _ := r.L.NextOffset()
					in.A = max(next-1-(-1000-in.A), 0)
					if next == 0 {
						in.A = klevdb.OffsetNewest
					}
					sr.res.Probes["late_wait_below_next"]++
				}
				e := hOp{Task: ti, Idx: ci, In: in}
				e.Call = s.StepStamp()
				e.Out = doCall(r.L, bl, sr.ctxs, &p.Cfg, &in)
				e.Ret = s.StepStamp()
				e.Done = true
				h = append(h, e)
				if in.K == "consume_b" || in.K == "consume_key_b" {
					sr.state.set(&sr.state.returned, ti)
				}
			}
			sr.hist[ti] = h
			sr.state.set(&sr.state.done, ti)
			s.TaskEnd(ti)
		}(i)
	}
	segsBefore := len(segmentBases(r.Dir))
	s.Start()
	wg.Wait()
	s.WaitIdle()
	res.Steps = s.Steps()
	res.Sites = s.SiteHits()
	for _, hs := range s.HeldSites() {
		res.Sites["hold@"+hs]++
		res.Faults["hold"]++
	}
	res.SimUS = sim.NowUS() - p.Cfg.StartUS
	sig := fmt.Sprintf("strat%d|sw%d|%x", p.Sched.Strategy, bucket(s.Switches()), s.SigHash())
	res.Faults["context_switch"] = s.Switches()
	trace := s.Trace()
	sim.End()

	// digest for the determinism check: decisions and results
	for _, t := range trace {
		r.digest = Mix(r.digest, uint64(t))
	}
	for ti := range sr.hist {
		for _, e := range sr.hist[ti] {
			r.logf("t%d.%d %s -> %s [%d,%d]", ti, e.Idx, describeOp(e.In), e.Out.String(), e.Call, e.Ret)
		}
	}
	res.Digest = r.digest
	res.Diverged = s.Diverged()
	if os.Getenv("VSIM_TRACE") != "" {
		res.Trace = append([]int32(nil), trace...)
	}
	tr := trace
	if len(tr) > 60 {
		tr = tr[:60]
	}
	var hl []string
	for ti := range sr.hist {
		for _, e := range sr.hist[ti] {
			hl = append(hl, fmt.Sprintf("[%d,%d] task %d: %s -> %s", e.Call, e.Ret, ti, describeOp(e.In), e.Out.String()))
		}
	}
	res.Extra = map[string]any{"scheduler_decisions_prefix": tr, "context_switches": s.Switches(), "yields": s.Steps(), "held_at": s.HeldSites(), "history": hl}
	if os.Getenv("VSIM_VERBOSE") != "" {
		res.Log = r.Log
	}
	if s.Switches() > 0 {
		res.Sigs = []string{sig}
	}

	// phase C: final sequential battery and verdicts
	closed := sr.state.isClosed()
	var final []hOp
	if !closed {
		sim.BeginInline(Mix(p.Seed, 7), sim.NowUS())
		stamp := int64(1 << 40)
		add := func(in Op) {
			e := hOp{Task: nt, Idx: len(final), In: in, Call: stamp}
			e.Out = doCall(r.L, nil, sr.ctxs, &p.Cfg, &in)
			e.Ret = stamp + 1
			stamp += 2
			e.Done = true
			final = append(final, e)
		}
		add(Op{K: "next"})
		// a complete cursor walk as a chain of Consume calls
		off := klevdb.OffsetOldest
		for i := 0; i < 200; i++ {
			add(Op{K: "consume", A: off, B: 3})
			last := final[len(final)-1].Out
			if last.Err != nil || (len(last.Msgs) == 0 && off >= 0 && last.Next == off) {
				break
			}
			off = last.Next
		}
		add(Op{K: "get", A: klevdb.OffsetOldest})
		add(Op{K: "get", A: klevdb.OffsetNewest})
		for _, k := range p.Cfg.KeySet {
			add(Op{K: "get_key", Key: k})
		}
		err := guard(func() error { return r.L.Close() })
		sim.End()
		if err != nil {
			sr.violate("Close|after-run|"+errKind(err), "Close after the concurrent phase failed: %v", err)
		}
	}
	sr.judge(init, final)
	sr.probesC08(segsBefore)
	return res
}

// probesC08 derives reach probes from the recorded history.
func (sr *sRun) probesC08(segsBefore int) {
	if sr.def.ID != "C08" {
		return
	}
	var all []hOp
	for _, h := range sr.hist {
		all = append(all, h...)
	}
	overlap := func(a, b *hOp) bool { return a.Call < b.Ret && b.Call < a.Ret }
	for i := range all {
		a := &all[i]
		if a.In.K == "del" && a.Out.Err == nil && len(a.Out.Offs) > 0 {
			sr.res.Probes["delete_removed_something"]++
		}
		for j := range all {
			b := &all[j]
			if i == j || a.Task == b.Task || !overlap(a, b) {
				continue
			}
			switch {
			case a.In.K == "pub" && b.In.K == "del":
				sr.res.Probes["publish_overlaps_delete"]++
			case a.In.K == "pub" && b.In.K == "pub" && i < j:
				sr.res.Probes["publish_overlaps_publish"]++
			case a.In.K == "del" && b.In.K == "del" && i < j:
				sr.res.Probes["delete_overlaps_delete"]++
			case a.In.K == "del" && (b.In.K == "consume" || b.In.K == "get" || b.In.K == "get_key" || b.In.K == "consume_key" || b.In.K == "get_time"):
				sr.res.Probes["read_overlaps_delete"]++
			case a.In.K == "gc" && b.In.K != "gc" && b.In.K != "clock":
				sr.res.Probes["gc_overlaps_call"]++
			}
		}
	}
	if n := len(segmentBases(sr.r.Dir)); n > segsBefore {
		sr.res.Probes["rollover_during_concurrent_phase"]++
	}
}

func (sr *sRun) violate(sig, format string, a ...any) {
	for _, v := range sr.res.Viols {
		if v.Sig == sr.def.ID+"|"+sig {
			return
		}
	}
	msg := strings.ReplaceAll(fmt.Sprintf(format, a...), sr.base, "<run>")
	sr.res.Viols = append(sr.res.Viols, ViolRec{Violation: Violation{Prop: sr.def.ID, Sig: sr.def.ID + "|" + sig, Msg: msg}, Plan: sr.plan})
}

func (sr *sRun) historyText(all []hOp) string {
	sort.Slice(all, func(i, j int) bool { return all[i].Call < all[j].Call })
	var b strings.Builder
	for _, e := range all {
		fmt.Fprintf(&b, "\n    [%d,%d] task %d: %s -> %s", e.Call, e.Ret, e.Task, describeOp(e.In), e.Out.String())
	}
	return b.String()
}

// judge evaluates the recorded history.
func (sr *sRun) judge(init lstate, final []hOp) {
	p := sr.plan
	var all []hOp
	for _, h := range sr.hist {
		all = append(all, h...)
	}
	all = append(all, final...)
	// (3) no spurious failure: errors that no sequential execution produces
	for _, e := range all {
		if e.Out.Err == nil {
			continue
		}
		if pe, ok := e.Out.Err.(*panicErr); ok {
			sr.violate(callName(describeOp(e.In))+"|panic", "%s panicked: %v\n%s", describeOp(e.In), pe.v, firstLines(pe.stack, 30))
			return
		}
		if sr.def.ID == "C18" && c18ExpectedErr(&e, sr) {
			continue
		}
		if e.Out.ErrC == EOther || e.Out.ErrC == EReadonly {
			sr.violate(callName(describeOp(e.In))+"|spurious-failure|"+errKind(e.Out.Err), "%s failed with an error no sequential execution produces: %v", describeOp(e.In), e.Out.Err)
			return
		}
	}
	if sr.def.ID == "C18" {
		if !sr.judgeC18(all) {
			return
		}
	}
	// (2) linearizability against the reference model
	var ops []porcupine.Operation
	for i := range all {
		e := &all[i]
		if sr.def.ID == "C18" && (e.In.K == "consume_b" || e.In.K == "consume_key_b") {
			if e.Out.Err != nil && c18ExpectedErr(e, sr) {
				continue // context / closed errors are judged by the C18 clauses
			}
			if sr.closeCall > 0 && e.Ret > sr.closeCall {
				continue // what Consume yields on a closed log is not specified
			}
		}
		in := &sIn{Op: e.In, Keys: p.Cfg.Keys, Tim: p.Cfg.Times}
		if e.In.K == "get_time" {
			in.Op.C = p.Cfg.StartUS + e.In.A
		}
		out := e.Out
		ops = append(ops, porcupine.Operation{ClientId: e.Task, Input: in, Call: e.Call, Output: &out, Return: e.Ret})
	}
	switch porcupine.CheckOperationsTimeout(porcupineModel(init), ops, 20*time.Second) {
	case porcupine.Illegal:
		sr.violate("not-linearizable|"+sr.culprit(init, all), "no sequential order of the calls, consistent with real time, produces these results:%s", sr.historyText(all))
	case porcupine.Unknown:
		sr.res.Inconclusive++
	}
}

// culprit names the call kinds involved, for a stable signature: the smallest set of call
// kinds whose removal (one kind at a time) makes the history linearizable again is too
// expensive; use the kinds of the mutating calls and of the first call that cannot be
// explained when replaying the history in return order.
func (sr *sRun) culprit(init lstate, all []hOp) string {
	sorted := append([]hOp(nil), all...)
	sort.Slice(sorted, func(i, j int) bool { return sorted[i].Ret < sorted[j].Ret })
	kinds := map[string]bool{}
	for _, e := range sorted {
		switch e.In.K {
		case "del":
			kinds["Delete"] = true
		}
	}
	// which read cannot be explained by any subset ordering? approximate: first read whose
	// result is inconsistent with every prefix state of a return-order replay
	m := decState(init)
	states := []*Model{m.Clone()}
	for _, e := range sorted {
		if e.In.K == "pub" || e.In.K == "del" {
			in := &sIn{Op: e.In, Keys: sr.plan.Cfg.Keys, Tim: sr.plan.Cfg.Times}
			out := e.Out
			c := states[len(states)-1].Clone()
			if stepModel(c, in, &out) {
				states = append(states, c)
			} else {
				return callName(describeOp(e.In))
			}
		}
	}
	for _, e := range sorted {
		if e.In.K == "pub" || e.In.K == "del" {
			continue
		}
		in := &sIn{Op: e.In, Keys: sr.plan.Cfg.Keys, Tim: sr.plan.Cfg.Times}
		if e.In.K == "get_time" {
			in.Op.C = sr.plan.Cfg.StartUS + e.In.A
		}
		ok := false
		for _, st := range states {
			out := e.Out
			if stepModel(st.Clone(), in, &out) {
				ok = true
				break
			}
		}
		if !ok {
			return callName(describeOp(e.In))
		}
	}
	var ks []string
	for k := range kinds {
		ks = append(ks, k)
	}
	sort.Strings(ks)
	return "order|" + strings.Join(ks, "+")
}

// ---- C18 specifics ----

// controllerOp executes the controller actions of a C18 script; returns true if handled.
func (sr *sRun) controllerOp(s *sim.Sched, ti int, in *Op, l klevdb.Log, bl klevdb.BlockingLog) bool {
	switch in.K {
	case "wait_quiescent":
		s.WaitQuiescent()
		// (a) no lost wake-up: whoever is still parked must have a reason to be
		next, _ := l.NextOffset()
		for wi, script := range sr.plan.Tasks {
			if wi == ti {
				continue // the controller's own waits have returned or not started
			}
			for _, op := range script {
				if op.K != "consume_b" && op.K != "consume_key_b" {
					continue
				}
				if sr.state.get(&sr.state.returned, wi) {
					continue
				}
				started := true // a waiter task has a single call; if it has not returned it is parked (quiescence)
				_ = started
				switch {
				case op.A < next:
					sr.lost(wi, &op, fmt.Sprintf("its offset %d is below NextOffset %d", op.A, next))
				case sr.state.get(&sr.state.cancelled, op.H):
					sr.lost(wi, &op, "its context is cancelled")
				case sr.state.isClosed():
					sr.lost(wi, &op, "the log is closed")
				default:
					sr.res.Probes["waiter_parked_at_quiescence"]++
				}
			}
		}
		return true
	case "cancel":
		sim.YieldAt(2)
		sr.cncl[in.H]()
		sr.state.set(&sr.state.cancelled, in.H)
		sr.res.Faults["cancel"]++
		return true
	case "close":
		e := hOp{Task: ti, In: *in}
		e.Call = s.StepStamp()
		err := guard(func() error { return bl.Close() })
		e.Ret = s.StepStamp()
		sr.state.setClosed()
		sr.res.Faults["close"]++
		if err != nil {
			sr.violate("Close|error|"+errKind(err), "Close of the blocking log failed: %v", err)
		}
		sr.closeAt = e.Ret
		sr.closeCall = e.Call
		return true
	case "yield":
		for i := int64(0); i < in.A; i++ {
			sim.YieldAt(2)
		}
		return true
	}
	return false
}

func (sr *sRun) lost(wi int, op *Op, why string) {
	sr.violate("lost-wakeup|"+op.K, "at quiescence waiter task %d (%s) is still parked although %s", wi, describeOp(*op), why)
}

func c18ExpectedErr(e *hOp, sr *sRun) bool {
	if e.In.K != "consume_b" && e.In.K != "consume_key_b" {
		return false
	}
	if errors.Is(e.Out.Err, context.Canceled) {
		return true
	}
	if strings.Contains(e.Out.ErrStr, "offset notify already closed") {
		return true
	}
	// a consume on a closed log: not specified
	if sr.closeCall > 0 && e.Ret > sr.closeCall {
		return true
	}
	return false
}

// judgeC18 checks clauses (b), (d) over the recorded history.
func (sr *sRun) judgeC18(all []hOp) bool {
	init := sr.r.M.Next
	// publishes and their intervals
	type iv struct{ call, ret, n int64 }
	var pubs []iv
	for _, e := range all {
		if e.In.K == "pub" && e.Task < len(sr.plan.Tasks) {
			pubs = append(pubs, iv{e.Call, e.Ret, int64(len(e.In.Msgs))})
		}
	}
	for i := range all {
		e := &all[i]
		if e.In.K != "consume_b" && e.In.K != "consume_key_b" {
			continue
		}
		off := e.In.A
		cancelledBefore := int64(-1)
		_ = cancelledBefore
		if e.Out.Err != nil {
			switch {
			case errors.Is(e.Out.Err, context.Canceled):
				// (d) its context must really have been cancelled
				if !sr.state.get(&sr.state.cancelled, e.In.H) {
					sr.violate("context-error-without-cancel", "%s returned %v, its context was never cancelled", describeOp(e.In), e.Out.Err)
					return false
				}
				sr.res.Probes["waiter_cancelled"]++
			case strings.Contains(e.Out.ErrStr, "offset notify already closed"):
				if sr.closeCall == 0 || e.Ret < sr.closeCall {
					sr.violate("closed-error-without-close", "%s returned %v before Close was called", describeOp(e.In), e.Out.Err)
					return false
				}
				sr.res.Probes["waiter_saw_closed"]++
			}
			continue
		}
		// returned without error: justified?
		if off < 0 {
			continue
		}
		// NextOffset can have been at most init + messages of publishes invoked before the return
		maxNext := init
		overlap := false
		for _, pb := range pubs {
			if pb.call < e.Ret {
				maxNext += pb.n
				if pb.ret > e.Call {
					overlap = true
				}
			}
		}
		closeOverlap := sr.closeCall > 0 && sr.closeCall < e.Ret
		if off < maxNext {
			if off >= init {
				sr.res.Probes["waiter_woken_by_publish"]++
			}
			continue
		}
		if overlap || closeOverlap {
			sr.res.Probes["waiter_woken_without_passing"]++
			continue
		}
		sr.violate("spurious-return|"+e.In.K, "%s returned %s although NextOffset never passed its offset (at most %d) and no Publish or Close happened during the call [%d,%d]", describeOp(e.In), e.Out.String(), maxNext, e.Call, e.Ret)
		return false
	}
	// (d) a wait at or beyond NextOffset that starts after Close fails
	for i := range all {
		e := &all[i]
		if (e.In.K == "consume_b" || e.In.K == "consume_key_b") && sr.closeAt > 0 && e.Call > sr.closeAt && e.In.A >= 0 {
			total := init
			for _, pb := range pubs {
				total += pb.n
			}
			if e.In.A >= total && e.Out.Err == nil {
				sr.violate("wait-after-close-succeeded", "%s started after Close had returned, at or beyond NextOffset %d, and returned %s", describeOp(e.In), total, e.Out.String())
				return false
			}
			if e.In.A >= total {
				sr.res.Probes["wait_after_close_failed"]++
			}
		}
	}
	return true
}
