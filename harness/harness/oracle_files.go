package harness

import (
	"bytes"
	"fmt"
	"os"
	"path/filepath"
	"sort"
	"strings"

	"github.com/klev-dev/klevdb"
	"github.com/klev-dev/klevdb/verifsim/refcodec"
)

// ---- helpers over the directory ----

type dirSnap map[string][]byte

func snapDir(dir string) dirSnap {
	out := dirSnap{}
	ents, err := os.ReadDir(dir)
	if err != nil {
		return out
	}
	for _, e := range ents {
		if e.IsDir() || e.Name() == ".lock" {
			continue
		}
		b, err := os.ReadFile(filepath.Join(dir, e.Name()))
		if err == nil {
			out[e.Name()] = b
		}
	}
	return out
}

func (a dirSnap) diff(b dirSnap) string {
	var names []string
	for n := range a {
		names = append(names, n)
	}
	for n := range b {
		if _, ok := a[n]; !ok {
			names = append(names, n)
		}
	}
	sort.Strings(names)
	for _, n := range names {
		x, okx := a[n]
		y, oky := b[n]
		switch {
		case !okx:
			return fmt.Sprintf("file %s appeared (%d bytes)", n, len(y))
		case !oky:
			return fmt.Sprintf("file %s disappeared", n)
		case !bytes.Equal(x, y):
			return fmt.Sprintf("file %s changed (%d -> %d bytes)", n, len(x), len(y))
		}
	}
	return ""
}

func copyDir(src, dst string) error {
	if err := os.MkdirAll(dst, 0o755); err != nil {
		return err
	}
	for n, b := range snapDir(src) {
		if err := os.WriteFile(filepath.Join(dst, n), b, 0o600); err != nil {
			return err
		}
	}
	return nil
}

type segFiles struct {
	Base    int64
	LogName string
	Log     []byte
	Index   []byte // nil = no index file
	HasIdx  bool
}

func readSegments(dir string) []segFiles {
	var out []segFiles
	for _, b := range segmentBases(dir) {
		s := segFiles{Base: b, LogName: fmt.Sprintf("%020d.log", b)}
		s.Log, _ = os.ReadFile(filepath.Join(dir, s.LogName))
		if ib, err := os.ReadFile(filepath.Join(dir, fmt.Sprintf("%020d.index", b))); err == nil {
			s.Index, s.HasIdx = ib, true
		}
		out = append(out, s)
	}
	return out
}

// ---- C11: index files are derived data ----

func itemsDiff(got, want []refcodec.Item, withTS bool) string {
	if len(got) != len(want) {
		return fmt.Sprintf("%d items, derived index has %d", len(got), len(want))
	}
	for i := range got {
		g, w := got[i], want[i]
		switch {
		case g.Off != w.Off:
			return fmt.Sprintf("item %d offset %d, derived %d", i, g.Off, w.Off)
		case g.Pos != w.Pos:
			return fmt.Sprintf("item %d (offset %d) position %d, derived %d", i, g.Off, g.Pos, w.Pos)
		case g.Hash != w.Hash:
			return fmt.Sprintf("item %d (offset %d) key hash %x, derived %x", i, g.Off, g.Hash, w.Hash)
		case withTS && g.TS != w.TS:
			return fmt.Sprintf("item %d (offset %d) timestamp %d, derived %d", i, g.Off, g.TS, w.TS)
		}
	}
	return ""
}

// checkIndexFiles compares every index file of a closed directory with the index derived
// from its log file by the reference codec.
func checkIndexFiles(r *Run, where string) bool {
	segs := readSegments(r.Dir)
	for i, s := range segs {
		if !s.HasIdx {
			continue
		}
		_, recs, _, clean, err := refcodec.DecodeLog(s.Log, s.Base)
		if err != nil || !clean {
			r.abort("%s: segment %d log does not decode cleanly (%v)", where, s.Base, err)
			return false
		}
		_, items, err := refcodec.DecodeIndex(s.Index, s.Base, r.M.Times, r.M.Keys)
		which := "reader-segment"
		if i == len(segs)-1 {
			which = "head-segment"
		}
		if err != nil {
			r.violate("index-file|undecodable|"+which, "%s: index of segment %d: %v", where, s.Base, err)
			return false
		}
		want := refcodec.DeriveIndex(recs, r.M.Times, r.M.Keys)
		if d := itemsDiff(items, want, r.M.Times && r.M.Monotone); d != "" {
			kind := "mismatch"
			if strings.Contains(d, "timestamp") {
				kind = "timestamp"
			} else if strings.Contains(d, "items,") {
				kind = "count"
			}
			r.violate("index-file|"+kind+"|"+which, "%s: index file of segment %d differs from the index derived from its log: %s", where, s.Base, d)
			return false
		}
		r.probe("index_file_checked")
		if i < len(segs)-1 {
			r.probe("reader_index_file_checked")
		}
	}
	return true
}

func hooksC11() Hooks {
	h := Hooks{Strict: []string{"Open", "Close"}}
	h.BeforeClose = func(r *Run) {
		q := r.obsQ(true, false)
		r.Ctx["q"] = q
		r.Ctx["obs"] = Observe(r.L, q)
	}
	h.AfterClose = func(r *Run) {
		r.noteState()
		if !checkIndexFiles(r, "at close") {
			return
		}
		q, _ := r.Ctx["q"].(*ObsQ)
		obs0, _ := r.Ctx["obs"].(*Obs)
		if q == nil || obs0 == nil {
			return
		}
		files := indexFiles(r.Dir)
		type trial struct {
			rm   []int
			name string
		}
		var trials []trial
		trials = append(trials, trial{nil, "none"})
		if len(files) > 0 {
			all := make([]int, len(files))
			for i := range all {
				all[i] = i
			}
			trials = append(trials, trial{all, "all"})
			if r.P.Tier == "thorough" {
				for k := 0; k < 4; k++ {
					var sub []int
					for i := range files {
						if r.Obs.Bool() {
							sub = append(sub, i)
						}
					}
					trials = append(trials, trial{sub, "subset"})
				}
			}
			// each single one (sampled when there are many)
			idx := make([]int, len(files))
			for i := range idx {
				idx[i] = i
			}
			for len(idx) > 4 {
				k := r.Obs.Intn(len(idx))
				idx = append(idx[:k], idx[k+1:]...)
			}
			for _, i := range idx {
				trials = append(trials, trial{[]int{i}, "single"})
			}
		}
		for ti, t := range trials {
			for mode := 0; mode < 2; mode++ {
				if len(trials) > 3 && (ti+mode+int(r.Obs.U64()&1))%2 == 1 && t.name == "single" {
					continue // sample the modes for singles
				}
				ro := mode == 1
				cp := filepath.Join(r.Base, "idxtrial")
				_ = os.RemoveAll(cp)
				if err := copyDir(r.Dir, cp); err != nil {
					panic(infraErr{err})
				}
				cpFiles := indexFiles(cp)
				for _, i := range t.rm {
					_ = os.Remove(cpFiles[i])
				}
				o := r.OOpts
				o.Check, o.Recover, o.Eager, o.Readonly = false, false, false, ro
				var l klevdb.Log
				err := guard(func() error {
					var e error
					l, e = klevdb.Open(cp, o.K(&r.P.Cfg))
					return e
				})
				tag := fmt.Sprintf("removed=%s|%s", t.name, map[bool]string{false: "rw", true: "ro"}[ro])
				if err != nil {
					r.violate("reopen|"+tag+"|open-error|"+errKind(err), "reopen (%s) after removing index files %v of %d failed: %v", tag, t.rm, len(files), err)
					return
				}
				obs1 := Observe(l, q)
				cerr := guard(func() error { return l.Close() })
				if g, d := DiffObs(obs0, obs1); g != "" {
					r.violate("reopen|"+tag+"|differs|"+g+"|"+callName(strings.Trim(strings.SplitN(d, " vs ", 2)[0], "\"")), "after removing index files %v of %d and reopening (%s) the log answers differently: %s", t.rm, len(files), tag, d)
					return
				}
				if cerr != nil {
					r.violate("reopen|"+tag+"|close-error", "Close after index-loss reopen (%s) failed: %v", tag, cerr)
					return
				}
				if len(t.rm) > 0 {
					r.probe("index_loss_trial")
				}
				_ = os.RemoveAll(cp)
			}
		}
	}
	return h
}

// ---- C13: formats stable, self-consistent, exactly sized ----

func verName(v int) string {
	switch v {
	case refcodec.V1:
		return "V1"
	case refcodec.V2:
		return "V2"
	}
	return "V?"
}

// checkFilesAgainstModel strictly decodes every log and index file with the reference codec
// and compares with the model: records back to back, content equal to what was published,
// the union of all files equal to the live list, index positions equal to record positions.
func checkFilesAgainstModel(r *Run, where string) bool {
	segs := readSegments(r.Dir)
	var all []Msg
	for _, s := range segs {
		v, recs, valid, clean, err := refcodec.DecodeLog(s.Log, s.Base)
		if err != nil {
			r.violate("file|log-header", "%s: %s does not start with a documented file header: %v", where, s.LogName, err)
			return false
		}
		if !clean {
			r.violate("file|log-not-back-to-back|"+verName(v), "%s: %s (%s) decodes only up to byte %d of %d by the documented layout", where, s.LogName, verName(v), valid, len(s.Log))
			return false
		}
		for i, rc := range recs {
			m := Msg{Off: rc.Off, US: rc.US, Key: rc.Key, Val: rc.Val}
			if rc.Off < 0 || rc.Off >= int64(len(r.M.Published)) || !sameMsg(m, r.M.Published[rc.Off]) {
				r.violate("file|record-content|"+verName(v), "%s: record %d of %s decodes to %v, published at that offset: %v", where, i, s.LogName, m, pubAt(r.M, rc.Off))
				return false
			}
			all = append(all, m)
		}
		if s.HasIdx {
			_, items, err := refcodec.DecodeIndex(s.Index, s.Base, r.M.Times, r.M.Keys)
			if err != nil {
				r.violate("file|index-layout", "%s: index of %s: %v", where, s.LogName, err)
				return false
			}
			// the head index may be shorter only while the log is open? no: both are written per message
			if len(items) != len(recs) {
				r.violate("file|index-count", "%s: index of %s has %d items for %d records", where, s.LogName, len(items), len(recs))
				return false
			}
			for i := range items {
				if items[i].Off != recs[i].Off || items[i].Pos != recs[i].Pos {
					r.violate("file|index-position", "%s: index item %d of %s says offset %d at %d, the record with offset %d is at %d", where, i, s.LogName, items[i].Off, items[i].Pos, recs[i].Off, recs[i].Pos)
					return false
				}
				if r.M.Keys && items[i].Hash != refcodec.FNV1a64(recs[i].Key) {
					r.violate("file|index-hash", "%s: index item %d of %s has key hash %x, FNV-1a-64 of the key is %x", where, i, s.LogName, items[i].Hash, refcodec.FNV1a64(recs[i].Key))
					return false
				}
			}
		}
		r.probe("file_decoded_" + verName(v))
	}
	if d := diffLive(all, r.M.Live); d != "" {
		r.violate("file|union-vs-model|"+diffKind(d), "%s: the records of all segment files differ from the live list: %s", where, d)
		return false
	}
	return true
}

func pubAt(m *Model, off int64) string {
	if off >= 0 && off < int64(len(m.Published)) {
		return m.Published[off].String()
	}
	return "nothing"
}

func dirSize(dir string) (files int, size int64) {
	for _, b := range segmentBases(dir) {
		for _, ext := range []string{"log", "index"} {
			if st, err := os.Stat(filepath.Join(dir, fmt.Sprintf("%020d.%s", b, ext))); err == nil {
				size += st.Size()
			}
		}
		files++
	}
	return
}

func checkStat(r *Run, where string) bool {
	var st klevdb.Stats
	err := guard(func() error {
		var e error
		st, e = r.L.Stat()
		return e
	})
	if err != nil {
		r.violate("Stat|error|"+errKind(err), "%s: Stat failed: %v", where, err)
		return false
	}
	nseg, size := dirSize(r.Dir)
	if r.OOpts.Readonly && len(segmentBases(r.Dir)) == 0 {
		nseg, size = 0, 0
	}
	if st.Messages != len(r.M.Live) {
		r.violate("Stat|messages", "%s: Stat reports %d messages, %d are live", where, st.Messages, len(r.M.Live))
		return false
	}
	if st.Size != size {
		r.violate("Stat|size", "%s: Stat reports size %d, the segment files add up to %d", where, st.Size, size)
		return false
	}
	_ = nseg // Stats.Segments is mentioned by no property: compared only differentially (observation battery)
	return true
}

func newVer(o OpenOpts) int {
	if o.NewV == 1 {
		return refcodec.V1
	}
	return refcodec.V2
}

func hooksC13() Hooks {
	h := Hooks{Strict: []string{"Open", "Close"}}
	h.AfterOpen = func(r *Run) { r.Ctx["layout"] = segLayout(r.Dir) }
	h.AfterStep = func(r *Run, op *Op) {
		defer func() { r.Ctx["layout"] = segLayout(r.Dir) }()
		r.noteState()
		if !checkFilesAgainstModel(r, "after "+op.K) {
			return
		}
		if !checkStat(r, "after "+op.K) {
			return
		}
		// what the real decoders (file reader for the head, mmap reader for rolled segments) read back
		got, _, diag := r.scan(int64(1 + r.Obs.Intn(9)))
		if diag != "" {
			r.violate("read-back|error|"+scanDiagKind(diag), "after %s: the log does not read back: %s", op.K, diag)
			return
		}
		if d := diffLive(got, r.M.Live); d != "" {
			r.violate("read-back|"+diffKind(d), "after %s: messages do not read back identical: %s", op.K, d)
			return
		}
		if n := len(r.M.Live); n > 0 {
			x := r.M.Live[r.Obs.Intn(n)]
			if g, err := getG(r.L, x.Off); err != nil || !sameMsg(g, x) {
				r.violate("read-back|Get", "after %s: Get(%d) = %v, %v; written %v", op.K, x.Off, g, err, x)
				return
			}
		}
		// Size(m) = bytes a message adds to a head segment of NewSegmentsVersion
		if op.K == "pub" && len(op.Msgs) > 0 && !r.pubRefused() {
			before, _ := r.Ctx["layout"].([]segInfo)
			after := segLayout(r.Dir)
			nv := newVer(r.OOpts)
			var est int64
			n := len(op.Msgs)
			pub := r.M.Published[len(r.M.Published)-n:]
			for _, m := range pub {
				sz := r.L.Size(klevdb.Message{Offset: m.Off, Key: m.Key, Value: m.Val})
				if want := storageSize(m, nv, r.M.Keys, r.M.Times); sz != want {
					r.violate("Size|value", "Size(%v) = %d, the documented %s layout needs %d", m, sz, verName(nv), want)
					return
				}
				est += sz
			}
			if len(before) > 0 && len(after) == len(before) && after[len(after)-1].Base == before[len(before)-1].Base && after[len(after)-1].Ver == nv {
				idx := func(l []segInfo) int64 {
					st, err := os.Stat(filepath.Join(r.Dir, fmt.Sprintf("%020d.index", l[len(l)-1].Base)))
					if err != nil {
						return 0
					}
					return st.Size()
				}
				_ = idx
				grow := after[len(after)-1].Size - before[len(before)-1].Size
				ib, _ := r.Ctx["head_index_size"].(int64)
				ia := idx(after)
				if ib > 0 {
					grow += ia - ib
					if grow != est {
						r.violate("Size|growth", "publishing %d messages grew the head segment by %d bytes, Size adds up to %d", n, grow, est)
						return
					}
					r.probe("size_growth_checked")
				}
			}
		}
		noteHeadIndexSize(r)
	}
	h.Refresh = func(r *Run) {
		r.Ctx["layout"] = segLayout(r.Dir)
		noteHeadIndexSize(r)
	}
	h.OnOp = func(r *Run, op *Op) bool {
		if op.K != "foreign" {
			return false
		}
		foreignSegment(r, op)
		return true
	}
	return h
}

func noteHeadIndexSize(r *Run) {
	if l := segLayout(r.Dir); len(l) > 0 {
		if st, err := os.Stat(filepath.Join(r.Dir, fmt.Sprintf("%020d.index", l[len(l)-1].Base))); err == nil {
			r.Ctx["head_index_size"] = st.Size()
		} else {
			r.Ctx["head_index_size"] = int64(0)
		}
	}
}

// foreignSegment closes the log, lets the reference encoder append messages to the
// directory (a new head segment, or the existing empty/compatible head), and reopens.
//
//	op.A: version (1/2); op.B: index mode 0 none, 1 write index; op.Msgs: messages
func foreignSegment(r *Run, op *Op) {
	if r.L != nil {
		if err := guard(func() error { return r.L.Close() }); err != nil {
			r.L = nil
			r.unexpected("Close", err)
			return
		}
		r.L = nil
	}
	_, ms := r.resolveMsgs(op.Msgs)
	if len(ms) == 0 {
		return
	}
	v := refcodec.V2
	if op.A == 1 {
		v = refcodec.V1
	}
	segs := readSegments(r.Dir)
	base := r.M.Next
	var logData []byte
	var recs []refcodec.Rec
	if n := len(segs); n > 0 && segs[n-1].Base == base {
		// the head is an empty segment named after NextOffset: extend it in its own version
		if len(segs[n-1].Log) == 8 {
			v = refcodec.V2
		} else if len(segs[n-1].Log) != 0 {
			r.abort("foreign: head segment at NextOffset is not empty")
			return
		}
	}
	logData = append(logData, refcodec.LogHeader(v)...)
	for i, m := range ms {
		off := base + int64(i)
		rec := refcodec.EncodeRecord(v, off, m.US, m.Key, m.Val)
		recs = append(recs, refcodec.Rec{Off: off, US: m.US, Key: m.Key, Val: m.Val, Pos: int64(len(logData)), Size: int64(len(rec))})
		logData = append(logData, rec...)
	}
	if err := os.WriteFile(filepath.Join(r.Dir, fmt.Sprintf("%020d.log", base)), logData, 0o600); err != nil {
		panic(infraErr{err})
	}
	ip := filepath.Join(r.Dir, fmt.Sprintf("%020d.index", base))
	_ = os.Remove(ip)
	if op.B == 1 {
		iv := v
		if op.C == 1 {
			iv = 3 - v // index in the other version than the log
		}
		if err := os.WriteFile(ip, refcodec.EncodeIndex(iv, r.M.Times, r.M.Keys, refcodec.DeriveIndex(recs, r.M.Times, r.M.Keys)), 0o600); err != nil {
			panic(infraErr{err})
		}
	}
	r.M.Publish(ms)
	r.logf("foreign segment base=%d n=%d v=%d index=%d", base, len(ms), v, op.B)
	r.probe("foreign_segment")
	o := *op.Open
	if err := r.open(o); err != nil {
		r.unexpected("Open(foreign)", err)
		return
	}
}
