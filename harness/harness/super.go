package harness

import (
	"bufio"
	"bytes"
	"crypto/sha1"
	"encoding/hex"
	"encoding/json"
	"fmt"
	"os"
	"os/exec"
	"path/filepath"
	"sort"
	"strings"
	"sync"
	"time"
)

type SuperCfg struct {
	Prop      string
	Tier      string
	Seed      uint64
	BudgetS   int
	Workers   int
	OutDir    string // replay files
	Evidence  string // evidence file path
	KnownFile string
	Scratch   string
	Bin       string // plain binary
	BinRace   string // -race binary ("" if not built)
	MaxRuns   int64
}

type knownFinding struct {
	Prop string
	Sig  string
	Text string
}

func loadKnown(path string) ([]knownFinding, error) {
	b, err := os.ReadFile(path)
	if err != nil {
		if os.IsNotExist(err) {
			return nil, nil
		}
		return nil, err
	}
	var out []knownFinding
	for _, line := range strings.Split(string(b), "\n") {
		line = strings.TrimSpace(line)
		if !strings.HasPrefix(line, "known:") {
			continue
		}
		rest := strings.TrimSpace(strings.TrimPrefix(line, "known:"))
		var k knownFinding
		fields := strings.Fields(rest)
		n := 0
		for _, f := range fields {
			if v, ok := strings.CutPrefix(f, "property="); ok {
				k.Prop = v
				n++
			} else if v, ok := strings.CutPrefix(f, "sig="); ok {
				k.Sig = v
				n++
			} else {
				break
			}
		}
		k.Text = strings.Join(fields[n:], " ")
		if k.Prop != "" && k.Sig != "" {
			out = append(out, k)
		}
	}
	return out, nil
}

type agg struct {
	mu           sync.Mutex
	runs         int64
	evals        int64
	aborts       int64
	abortWhy     map[string]int
	probes       map[string]int
	faults       map[string]int
	sigs         map[string]bool
	sites        map[string]int
	steps        int64
	simUS        int64
	samples      []json.RawMessage
	viols        map[string]*ViolRec // by signature, lowest run number wins
	violCount    map[string]int
	infra        []string
	digests      map[int64]uint64
	inconclusive int64
	crashed      []crashInfo
}

type crashInfo struct {
	run    int64
	stderr string
	code   int
	race   bool
}

func newAgg() *agg {
	return &agg{abortWhy: map[string]int{}, probes: map[string]int{}, faults: map[string]int{}, sigs: map[string]bool{},
		sites: map[string]int{}, viols: map[string]*ViolRec{}, violCount: map[string]int{}, digests: map[int64]uint64{}}
}

func (a *agg) add(r *RunResult) {
	a.mu.Lock()
	defer a.mu.Unlock()
	a.runs++
	a.evals += int64(r.Evals)
	a.steps += int64(r.Steps)
	a.simUS += r.SimUS
	a.inconclusive += int64(r.Inconclusive)
	if r.Abort != "" {
		a.aborts++
		k := r.Abort
		if len(k) > 60 {
			k = k[:60]
		}
		a.abortWhy[k]++
	}
	for k, v := range r.Probes {
		a.probes[k] += v
	}
	for k, v := range r.Faults {
		a.faults[k] += v
	}
	for k, v := range r.Sites {
		a.sites[k] += v
	}
	for _, s := range r.Sigs {
		a.sigs[s] = true
	}
	if r.Sample != nil && len(a.samples) < 3 {
		a.samples = append(a.samples, r.Sample)
	}
	if r.Infra != "" {
		a.infra = append(a.infra, r.Infra)
	}
	a.digests[r.Run] = r.Digest
	for i := range r.Viols {
		v := r.Viols[i]
		a.violCount[v.Sig]++
		if old, ok := a.viols[v.Sig]; !ok || v.Plan.Run < old.Plan.Run || (v.Plan.Run == old.Plan.Run && planLess(v.Plan, old.Plan)) {
			vv := v
			a.viols[v.Sig] = &vv
		}
	}
}

func planLess(a, b *Plan) bool { return len(a.JSON()) < len(b.JSON()) }

func (c *SuperCfg) workerCmd(bin string, args ...string) *exec.Cmd {
	cmd := exec.Command(bin, args...)
	cmd.Env = append(os.Environ(), "GOMAXPROCS=2", "GOMEMLIMIT=2GiB", "GORACE=halt_on_error=1 exitcode=66")
	return cmd
}

// runWorker runs one worker process to completion, restarting it after a crash.
func (c *SuperCfg) runWorker(a *agg, def *PropDef, bin string, idx, stride int64, deadline time.Time, race bool) {
	start := idx
	for {
		if time.Now().After(deadline) && start != idx {
			return
		}
		args := []string{"worker", "-prop", c.Prop, "-tier", c.Tier, "-seed", fmt.Sprint(c.Seed),
			"-start", fmt.Sprint(start), "-stride", fmt.Sprint(stride), "-deadline", fmt.Sprint(deadline.UnixMilli()),
			"-scratch", filepath.Join(c.Scratch, fmt.Sprintf("w%d", idx))}
		if c.MaxRuns > 0 {
			args = append(args, "-maxruns", fmt.Sprint(c.MaxRuns))
		}
		if race {
			args = append(args, "-race")
		}
		cmd := c.workerCmd(bin, args...)
		var stderr bytes.Buffer
		cmd.Stderr = &stderr
		stdout, err := cmd.StdoutPipe()
		if err != nil {
			a.mu.Lock()
			a.infra = append(a.infra, "pipe: "+err.Error())
			a.mu.Unlock()
			return
		}
		if err := cmd.Start(); err != nil {
			a.mu.Lock()
			a.infra = append(a.infra, "start worker: "+err.Error())
			a.mu.Unlock()
			return
		}
		inProgress := int64(-1)
		// watchdog: a worker that is silent for too long is killed (infrastructure failure)
		alive := make(chan struct{}, 1)
		stopWd := make(chan struct{})
		hung := false
		go func() {
			for {
				select {
				case <-alive:
				case <-stopWd:
					return
				case <-time.After(180 * time.Second):
					hung = true
					_ = cmd.Process.Kill()
					return
				}
			}
		}()
		sc := bufio.NewScanner(stdout)
		sc.Buffer(make([]byte, 1<<20), 1<<28)
		for sc.Scan() {
			select {
			case alive <- struct{}{}:
			default:
			}
			var r RunResult
			if err := json.Unmarshal(sc.Bytes(), &r); err != nil {
				a.mu.Lock()
				a.infra = append(a.infra, "bad worker line: "+err.Error())
				a.mu.Unlock()
				continue
			}
			if r.HB {
				continue
			}
			if r.Begin != nil {
				inProgress = *r.Begin
				continue
			}
			inProgress = -1
			a.add(&r)
		}
		err = cmd.Wait()
		close(stopWd)
		if hung {
			a.mu.Lock()
			a.infra = append(a.infra, fmt.Sprintf("worker %d hung in run %d (no output for 180 s), killed", idx, inProgress))
			a.mu.Unlock()
			return
		}
		if err == nil {
			return
		}
		code := -1
		if ee, ok := err.(*exec.ExitError); ok {
			code = ee.ExitCode()
		}
		if inProgress < 0 || code == 2 {
			a.mu.Lock()
			a.infra = append(a.infra, fmt.Sprintf("worker %d exited with %d: %s", idx, code, tail(stderr.String(), 2000)))
			a.mu.Unlock()
			return
		}
		// the process died inside a run: a crash of the code under test (fatal error, race
		// report, deadlock exit) attributed to that run
		a.mu.Lock()
		a.crashed = append(a.crashed, crashInfo{run: inProgress, stderr: stderr.String(), code: code, race: race})
		a.mu.Unlock()
		start = inProgress + stride
	}
}

func tail(s string, n int) string {
	if len(s) > n {
		return s[len(s)-n:]
	}
	return s
}

// execPlan runs one plan in a child process and returns its result.
func (c *SuperCfg) execPlan(bin string, p *Plan, tag string, timeout time.Duration) (*RunResult, string, int) {
	dir := filepath.Join(c.Scratch, "exec-"+tag)
	_ = os.MkdirAll(dir, 0o755)
	defer os.RemoveAll(dir)
	pf := filepath.Join(dir, "plan.json")
	if err := os.WriteFile(pf, p.JSON(), 0o644); err != nil {
		return nil, err.Error(), 2
	}
	cmd := c.workerCmd(bin, "exec", "-plan", pf, "-scratch", filepath.Join(dir, "s"))
	cmd.Env = append(cmd.Env, "VSIM_TRACE=1")
	var stdout, stderr bytes.Buffer
	cmd.Stdout, cmd.Stderr = &stdout, &stderr
	if err := cmd.Start(); err != nil {
		return nil, err.Error(), 2
	}
	done := make(chan error, 1)
	go func() { done <- cmd.Wait() }()
	select {
	case err := <-done:
		code := 0
		if err != nil {
			code = -1
			if ee, ok := err.(*exec.ExitError); ok {
				code = ee.ExitCode()
			}
		}
		var r RunResult
		lines := strings.Split(strings.TrimSpace(stdout.String()), "\n")
		if code == 0 && len(lines) > 0 {
			if err := json.Unmarshal([]byte(lines[len(lines)-1]), &r); err == nil {
				return &r, stderr.String(), 0
			}
		}
		return nil, stderr.String(), code
	case <-time.After(timeout):
		_ = cmd.Process.Kill()
		<-done
		return nil, "timeout", -9
	}
}

// crashSig derives a violation signature from the stderr of a process that died in a run.
func crashSig(prop string, ci crashInfo) (string, string) {
	s := ci.stderr
	switch {
	case strings.Contains(s, "WARNING: DATA RACE"):
		return prop + "|data-race|" + raceFrames(s), firstLines(s, 40)
	case strings.Contains(s, "SIM-DEADLOCK"):
		return prop + "|deadlock", lineWith(s, "SIM-DEADLOCK")
	case strings.Contains(s, "SIM-LIVELOCK"):
		return prop + "|livelock", lineWith(s, "SIM-LIVELOCK")
	case strings.Contains(s, "fatal error:"):
		l := lineWith(s, "fatal error:")
		return prop + "|fatal|" + dash(strings.TrimSpace(strings.TrimPrefix(l, "fatal error:"))), firstLines(s, 30)
	case strings.Contains(s, "panic:"):
		return prop + "|panic", firstLines(s, 30)
	}
	return prop + fmt.Sprintf("|process-died-%d", ci.code), firstLines(s, 30)
}

func lineWith(s, sub string) string {
	for _, l := range strings.Split(s, "\n") {
		if strings.Contains(l, sub) {
			return l
		}
	}
	return ""
}

func firstLines(s string, n int) string {
	ls := strings.Split(s, "\n")
	if len(ls) > n {
		ls = ls[:n]
	}
	return strings.Join(ls, "\n")
}

// raceFrames extracts the two top frames (file:line inside the module) of a race report.
func raceFrames(s string) string {
	var frames []string
	lines := strings.Split(s, "\n")
	for i, l := range lines {
		if strings.HasPrefix(l, "Read at ") || strings.HasPrefix(l, "Write at ") || strings.HasPrefix(l, "Previous read at ") || strings.HasPrefix(l, "Previous write at ") {
			for j := i + 1; j < len(lines) && j < i+40; j++ {
				t := strings.TrimSpace(lines[j])
				if t == "" {
					break
				}
				if k := strings.Index(t, "klevdb/"); k >= 0 && !strings.Contains(t, "verifsim/") && strings.Contains(t, ".go:") {
					f := t[k+7:]
					if sp := strings.IndexByte(f, ' '); sp >= 0 {
						f = f[:sp]
					}
					frames = append(frames, f)
					break
				}
			}
		}
	}
	sort.Strings(frames)
	return strings.Join(frames, "~")
}

func sigFile(sig string) string {
	h := sha1.Sum([]byte(sig))
	return hex.EncodeToString(h[:6])
}

// Supervise is the entry point of a check run. Returns the process exit code.
func Supervise(c *SuperCfg) int {
	def := Props[c.Prop]
	if def == nil {
		fmt.Fprintln(os.Stderr, "unknown property", c.Prop)
		return 2
	}
	fmt.Printf("SEED %d property=%s tier=%s engine=%s budget=%ds workers=%d\n", c.Seed, c.Prop, c.Tier, def.Engine, c.BudgetS, c.Workers)
	known, err := loadKnown(c.KnownFile)
	if err != nil {
		fmt.Fprintln(os.Stderr, "INFRA-ERROR: known findings:", err)
		return 2
	}
	t0 := time.Now()
	deadline := t0.Add(time.Duration(c.BudgetS) * time.Second)
	a := newAgg()
	var wg sync.WaitGroup
	nRace := 0
	if def.Race && c.BinRace != "" {
		nRace = c.Workers / 2
	}
	for i := 0; i < c.Workers; i++ {
		wg.Add(1)
		bin, race := c.Bin, false
		if i < nRace {
			bin, race = c.BinRace, true
		}
		go func(i int, bin string, race bool) {
			defer wg.Done()
			c.runWorker(a, def, bin, int64(i), int64(c.Workers), deadline, race)
		}(i, bin, race)
	}
	wg.Wait()
	runWall := time.Since(t0).Seconds()

	if len(a.infra) > 0 {
		for _, s := range a.infra {
			fmt.Fprintln(os.Stderr, "INFRA-ERROR:", s)
		}
		return 2
	}
	if a.runs == 0 {
		fmt.Fprintln(os.Stderr, "INFRA-ERROR: no run completed")
		return 2
	}

	// determinism spot check: re-execute the first runs in fresh processes
	if code := c.determinismCheck(a, def); code != 0 {
		return code
	}

	// crashes of worker processes become violations with a regenerated plan
	for _, ci := range a.crashed {
		sig, msg := crashSig(c.Prop, ci)
		plan := GenPlan(def, c.Tier, runSeed(c.Seed, ci.run), ci.run)
		if ci.race {
			if plan.Sched == nil {
				plan.Sched = &SchedP{}
			}
			plan.Sched.Race = true
		}
		a.violCount[sig]++
		if old, ok := a.viols[sig]; !ok || ci.run < old.Plan.Run {
			a.viols[sig] = &ViolRec{Violation: Violation{Prop: c.Prop, Sig: sig, Msg: msg}, Plan: plan}
		}
	}

	// report violations
	var sigs []string
	for s := range a.viols {
		sigs = append(sigs, s)
	}
	sort.Strings(sigs)
	exit := 0
	nviol := 0
	knownHits := map[string]int{}
	_ = os.MkdirAll(filepath.Join(c.OutDir, c.Prop), 0o755)
	minBudget := 20 * time.Second
	if c.Tier == "thorough" {
		minBudget = 90 * time.Second
	}
	reported := 0
	for _, sig := range sigs {
		v := a.viols[sig]
		if k := matchKnown(known, c.Prop, sig); k != nil {
			knownHits[k.Sig] += a.violCount[sig]
			continue
		}
		nviol++
		if reported >= 6 {
			// enough replay files; further signatures are listed without one
			fmt.Printf("  (further violation, no replay file written) signature: %s (%d evaluations, first in run %d)\n", sig, a.violCount[sig], v.Plan.Run)
			continue
		}
		reported++
		plan := v.Plan
		bin := c.Bin
		if plan.Sched != nil && plan.Sched.Race && c.BinRace != "" {
			bin = c.BinRace
		}
		// confirm in a fresh process, then minimise
		ok, msg := c.reproduces(bin, plan, sig)
		if !ok {
			fmt.Fprintf(os.Stderr, "INFRA-ERROR: violation %s of run %d did not reproduce in a fresh process (%s)\n", sig, plan.Run, msg)
			return 2
		}
		minPlan := c.minimise(bin, plan, sig, minBudget)
		minPlan.Expect = &Expect{Sig: sig, Msg: v.Msg}
		if r, _, _ := c.execPlan(bin, minPlan, "final", 120*time.Second); r != nil {
			for _, vv := range r.Viols {
				if vv.Sig == sig {
					minPlan.Expect.Msg = vv.Msg
				}
			}
		}
		path := filepath.Join(c.OutDir, c.Prop, sigFile(sig)+".json")
		b, _ := json.MarshalIndent(minPlan, "", " ")
		if err := os.WriteFile(path, b, 0o644); err != nil {
			fmt.Fprintln(os.Stderr, "INFRA-ERROR:", err)
			return 2
		}
		fmt.Printf("VIOLATION property=%s replay=%s\n", c.Prop, path)
		fmt.Printf("  signature: %s (seen in %d evaluations, first in run %d, seed %d)\n", sig, a.violCount[sig], plan.Run, plan.Seed)
		fmt.Printf("  %s\n", strings.ReplaceAll(minPlan.Expect.Msg, "\n", "\n  "))
		exit = 1
	}
	for _, k := range known {
		if k.Prop == c.Prop && knownHits[k.Sig] > 0 {
			fmt.Printf("KNOWN-FINDING: property=%s %s [sig=%s, %d evaluations]\n", c.Prop, k.Text, k.Sig, knownHits[k.Sig])
		}
	}

	if err := c.writeEvidence(a, def, runWall, time.Since(t0).Seconds(), nviol, knownHits); err != nil {
		fmt.Fprintln(os.Stderr, "INFRA-ERROR: evidence:", err)
		return 2
	}
	// reach warnings
	for _, t := range def.Trigger {
		if a.probes[t] == 0 {
			fmt.Printf("WARNING: probe %q never fired\n", t)
		}
	}
	fmt.Printf("SUMMARY property=%s runs=%d evaluations=%d distinct_nontrivial=%d aborted=%d violations=%d known=%d wall=%.1fs\n",
		c.Prop, a.runs, a.evals, len(a.sigs), a.aborts, nviol, len(knownHits), time.Since(t0).Seconds())
	return exit
}

// faultProbes are the probes that count an injected fault or disturbance (the engines K, D
// and S count theirs in Faults directly): they are listed under faults_injected as well.
var faultProbes = []string{"index_removed", "process_kill", "publish_refused_oversized", "multi_helper_interrupted",
	"multi_helper_context_cancelled", "offline_migrate1", "offline_migrate2", "offline_recover", "offline_check",
	"index_loss_trial", "foreign_segment", "open_failed_missing_dir", "open_failed_corrupt_index", "open_conflict",
	"ro_damage_probe_opened", "ro_damage_probe_refused", "ro_leftover_probe_opened", "ro_leftover_probe_refused",
	"clock_back", "reopen", "readonly_peek", "gc"}

func withFaultProbes(faults, probes map[string]int) map[string]int {
	out := map[string]int{}
	for k, v := range faults {
		out[k] = v
	}
	for _, k := range faultProbes {
		if v := probes[k]; v > 0 {
			if _, dup := out[k]; !dup {
				out[k] = v
			}
		}
	}
	return out
}

func matchKnown(known []knownFinding, prop, sig string) *knownFinding {
	for i := range known {
		if known[i].Prop == prop && known[i].Sig == sig {
			return &known[i]
		}
	}
	return nil
}

// reproduces re-executes a failing plan in a fresh process. The simulator decides every choice
// it owns, but the code under test can still draw on sources it does not (Go randomises the
// iteration order of maps): a violation that depends on such a source does not show in every
// execution of the same plan, so a plan gets a few attempts before the sighting is put down
// to the infrastructure.
func (c *SuperCfg) reproduces(bin string, p *Plan, sig string) (bool, string) {
	var ok bool
	var msg string
	for attempt := 0; attempt < 5 && !ok; attempt++ {
		ok, msg = c.reproducesOnce(bin, p, sig)
		if !ok && attempt == 0 {
			fmt.Fprintf(os.Stderr, "NOTE: %s of run %d did not show in the first re-execution (%s): trying again\n", sig, p.Run, msg)
		}
	}
	return ok, msg
}

func (c *SuperCfg) reproducesOnce(bin string, p *Plan, sig string) (bool, string) {
	r, stderr, code := c.execPlan(bin, p, "repro", 120*time.Second)
	if r != nil {
		for _, v := range r.Viols {
			if v.Sig == sig {
				return true, ""
			}
		}
		return false, "no such violation in replay"
	}
	s, _ := crashSig(p.Prop, crashInfo{stderr: stderr, code: code})
	if sameCrash(s, sig) {
		return true, ""
	}
	return false, fmt.Sprintf("exit %d sig %s", code, s)
}

// sameCrash: two process deaths are the same finding if their signatures are equal, or if both
// are data-race reports: which pair of conflicting accesses the detector names first can
// differ between executions of one schedule (several pairs race at once), the race is the same.
func sameCrash(got, want string) bool {
	if got == want {
		return true
	}
	i, j := strings.Index(got, "|data-race|"), strings.Index(want, "|data-race|")
	return i > 0 && i == j && got[:i] == want[:j]
}

func (c *SuperCfg) determinismCheck(a *agg, def *PropDef) int {
	n := 0
	for run := int64(0); run < int64(c.Workers)*2 && n < 3; run++ {
		want, ok := a.digests[run]
		if !ok {
			continue
		}
		crashed := false
		for _, ci := range a.crashed {
			if ci.run == run {
				crashed = true
			}
		}
		if crashed {
			continue
		}
		n++
		plan := GenPlan(def, c.Tier, runSeed(c.Seed, run), run)
		r, stderr, code := c.execPlan(c.Bin, plan, fmt.Sprintf("det%d", run), 300*time.Second)
		if r == nil && code == -9 {
			fmt.Printf("WARNING: determinism re-execution of run %d did not finish within 300 s (loaded machine?), skipped\n", run)
			continue
		}
		if r == nil {
			fmt.Fprintf(os.Stderr, "INFRA-ERROR: determinism re-execution of run %d failed (exit %d): %s\n", run, code, tail(stderr, 1000))
			return 2
		}
		if r.Digest != want {
			fmt.Fprintf(os.Stderr, "INFRA-ERROR: nondeterminism detected: run %d digest %x, re-execution %x\n", run, want, r.Digest)
			return 2
		}
	}
	return 0
}

func (c *SuperCfg) writeEvidence(a *agg, def *PropDef, runWall, wall float64, nviol int, knownHits map[string]int) error {
	samples := make([]any, 0, len(a.samples))
	for _, s := range a.samples {
		var v any
		_ = json.Unmarshal(s, &v)
		samples = append(samples, v)
	}
	zero := []string{}
	for k, v := range a.probes {
		_ = v
		_ = k
	}
	for _, t := range def.Trigger {
		if a.probes[t] == 0 {
			zero = append(zero, t)
		}
	}
	cov := map[string]any{
		"evaluations":          a.evals,
		"distinct_nontrivial":  len(a.sigs),
		"rule":                 def.Rule,
		"samples":              samples,
		"runs":                 a.runs,
		"runs_aborted":         a.aborts,
		"abort_reasons":        a.abortWhy,
		"runs_per_hour":        int64(float64(a.runs) / runWall * 3600),
		"steps":                a.steps,
		"simulated_seconds":    float64(a.simUS) / 1e6,
		"faults_injected":      withFaultProbes(a.faults, a.probes),
		"probes":               a.probes,
		"probes_stuck_at_zero": zero,
		"known_findings_hit":   knownHits,
		"inconclusive":         a.inconclusive,
		"components": map[string]any{
			"real":      []string{"klevdb (all packages, compiled from the working tree, instrumented at the os/sync/atomic/time/rand/channel seams)", "gofrs/flock", "go-adaptive-radix-tree", "x/exp/mmap", "kernel file I/O on tmpfs"},
			"simulated": []string{"wall clock and timers", "goroutine scheduling (engine S)", "crypto/rand", "process death / power loss (engines K: images synthesised from the recorded FS trace)", "fsync durability (shadow disk model)"},
		},
		"exhaustive": false,
	}
	if len(a.sites) > 0 {
		nh, ny := 0, 0
		var holds []string
		for k := range a.sites {
			if strings.HasPrefix(k, "hold@") {
				nh++
				holds = append(holds, strings.TrimPrefix(k, "hold@"))
			} else {
				ny++
			}
		}
		sort.Strings(holds)
		cov["yield_sites_covered"] = ny
		cov["hold_windows_covered"] = nh
		cov["hold_window_sites"] = holds
	}
	ev := map[string]any{
		"property_id": c.Prop,
		"tier":        c.Tier,
		"seed":        c.Seed,
		"level":       def.Level,
		"coverage":    cov,
		"assumptions": def.Assume,
		"wall_s":      wall,
		"violations":  nviol,
	}
	b, err := json.MarshalIndent(ev, "", " ")
	if err != nil {
		return err
	}
	if err := os.MkdirAll(filepath.Dir(c.Evidence), 0o755); err != nil {
		return err
	}
	return os.WriteFile(c.Evidence, b, 0o644)
}

// ReplayMain re-executes a replay file in a fresh process and reports whether the recorded
// violation reproduces: exit 1 + VIOLATION line if it does, 0 if the run is clean.
func ReplayMain(c *SuperCfg, path string) int {
	p, err := LoadPlan(path)
	if err != nil {
		fmt.Fprintln(os.Stderr, "INFRA-ERROR:", err)
		return 2
	}
	bin := c.Bin
	if p.Sched != nil && p.Sched.Race && c.BinRace != "" {
		bin = c.BinRace
	}
	r, stderr, code := c.execPlan(bin, p, "replay", 600*time.Second)
	var sigs []string
	var msgs []string
	if r != nil {
		for _, v := range r.Viols {
			sigs = append(sigs, v.Sig)
			msgs = append(msgs, v.Msg)
		}
	} else {
		s, m := crashSig(p.Prop, crashInfo{stderr: stderr, code: code})
		sigs, msgs = append(sigs, s), append(msgs, m)
	}
	want := ""
	if p.Expect != nil {
		want = p.Expect.Sig
	}
	for i, s := range sigs {
		if want == "" || s == want {
			fmt.Printf("VIOLATION property=%s replay=%s\n  signature: %s\n  %s\n", p.Prop, path, s, strings.ReplaceAll(msgs[i], "\n", "\n  "))
			return 1
		}
	}
	if len(sigs) > 0 {
		fmt.Printf("replay shows a different violation: %v (expected %s)\n", sigs, want)
		fmt.Printf("VIOLATION property=%s replay=%s\n", p.Prop, path)
		return 1
	}
	fmt.Printf("replay clean: property=%s held (expected signature %s did not occur)\n", p.Prop, want)
	return 0
}
