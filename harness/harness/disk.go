package harness

import (
	"bytes"
	"fmt"
	"os"
	"path/filepath"
	"sort"
	"strings"

	"github.com/klev-dev/klevdb/verifsim/sim"
)

// Disk is the shadow model of the directory tree, driven by the FS trace (DESIGN.md 3.4).
// File objects keep their identity across renames; each remembers its content at the last
// fsync, which is what survives a power loss for sure.
type fobj struct {
	data   []byte
	synced []byte
}

type Disk struct {
	files map[string]*fobj // by absolute path
	fds   map[int32]*fobj
}

func NewDisk() *Disk { return &Disk{files: map[string]*fobj{}, fds: map[int32]*fobj{}} }

// DiskFromDir loads a directory as the initial state (everything considered durable).
func DiskFromDir(dir string) *Disk {
	d := NewDisk()
	for n, b := range snapDir(dir) {
		d.files[filepath.Join(dir, n)] = &fobj{data: b, synced: append([]byte(nil), b...)}
	}
	return d
}

func (d *Disk) Clone() *Disk {
	c := NewDisk()
	m := map[*fobj]*fobj{}
	cp := func(o *fobj) *fobj {
		if n, ok := m[o]; ok {
			return n
		}
		n := &fobj{data: append([]byte(nil), o.data...), synced: append([]byte(nil), o.synced...)}
		m[o] = n
		return n
	}
	for p, o := range d.files {
		c.files[p] = cp(o)
	}
	for fd, o := range d.fds {
		c.fds[fd] = cp(o)
	}
	return c
}

func (d *Disk) Apply(e *sim.FSEvent) {
	switch e.Kind {
	case sim.EvOpen:
		o := d.files[e.Path]
		if e.Created || o == nil {
			if !e.Created {
				return // a directory or something outside the model
			}
			o = &fobj{}
			d.files[e.Path] = o
		}
		if e.Truncated {
			o.data = nil
		}
		d.fds[e.Fd] = o
	case sim.EvWrite:
		o := d.fds[e.Fd]
		if o == nil {
			return
		}
		if e.Append || e.Off < 0 {
			o.data = append(o.data, e.Data...)
		} else {
			end := int(e.Off) + len(e.Data)
			if end > len(o.data) {
				o.data = append(o.data, make([]byte, end-len(o.data))...)
			}
			copy(o.data[e.Off:], e.Data)
		}
	case sim.EvTruncate:
		var o *fobj
		if e.Fd > 0 {
			o = d.fds[e.Fd]
		} else {
			o = d.files[e.Path]
		}
		if o == nil {
			return
		}
		if int(e.Len) <= len(o.data) {
			o.data = o.data[:e.Len]
		} else {
			o.data = append(o.data, make([]byte, int(e.Len)-len(o.data))...)
		}
	case sim.EvFsync:
		if o := d.fds[e.Fd]; o != nil {
			o.synced = append(o.synced[:0], o.data...)
		}
	case sim.EvRename:
		if o := d.files[e.Path]; o != nil {
			d.files[e.Path2] = o
			delete(d.files, e.Path)
		}
	case sim.EvRemove:
		delete(d.files, e.Path)
	case sim.EvRemoveAll:
		for p := range d.files {
			if p == e.Path || strings.HasPrefix(p, e.Path+"/") {
				delete(d.files, p)
			}
		}
	case sim.EvLink:
		if o := d.files[e.Path]; o != nil {
			d.files[e.Path2] = o
		}
	case sim.EvClose:
		delete(d.fds, e.Fd)
	}
}

// names returns the files under dir, sorted, as (name, object).
func (d *Disk) under(dir string) []string {
	var out []string
	for p := range d.files {
		if filepath.Dir(p) == dir {
			out = append(out, p)
		}
	}
	sort.Strings(out)
	return out
}

// Materialise writes the files the model has under src into dst. cut chooses the length of
// each file (nil: full length).
func (d *Disk) Materialise(src, dst string, cut func(name string, o *fobj) []byte) error {
	if err := os.MkdirAll(dst, 0o755); err != nil {
		return err
	}
	for _, p := range d.under(src) {
		o := d.files[p]
		b := o.data
		if cut != nil {
			b = cut(filepath.Base(p), o)
		}
		if err := os.WriteFile(filepath.Join(dst, filepath.Base(p)), b, 0o600); err != nil {
			return err
		}
	}
	return nil
}

// SelfCheck compares the model with the real directory; "" = identical.
func (d *Disk) SelfCheck(dir string) string {
	real := snapDir(dir)
	seen := map[string]bool{}
	for _, p := range d.under(dir) {
		n := filepath.Base(p)
		if n == ".lock" {
			continue
		}
		seen[n] = true
		rb, ok := real[n]
		if !ok {
			return fmt.Sprintf("model has %s, the directory does not", n)
		}
		if !bytes.Equal(rb, d.files[p].data) {
			return fmt.Sprintf("%s: model %d bytes, directory %d bytes (or content differs)", n, len(d.files[p].data), len(rb))
		}
	}
	for n := range real {
		if !seen[n] {
			return fmt.Sprintf("directory has %s, the model does not", n)
		}
	}
	return ""
}

// powerCut returns the content of a file after a power loss: the fsynced content plus a
// chosen part (permille) of what was appended since; never strictly inside a file header.
func powerCut(o *fobj, permille int64) []byte {
	if !bytes.HasPrefix(o.data, o.synced) {
		// overwritten or truncated since the last fsync: old or new content
		if permille < 500 {
			return o.synced
		}
		return o.data
	}
	lo, hi := int64(len(o.synced)), int64(len(o.data))
	l := lo + (hi-lo)*permille/1000
	if l > 0 && l < 8 && hasFileHeader(o.data) {
		// 8-byte file headers are written atomically
		if lo == 0 && permille < 500 {
			l = 0
		} else {
			l = 8
		}
		if l > hi {
			l = hi
		}
		if l < lo {
			l = lo
		}
	}
	return o.data[:l]
}

func hasFileHeader(b []byte) bool {
	return len(b) >= 8 && b[0] == 0xFF && string(b[1:5]) == "klev"
}

// fileClass normalises a path for signatures: segment numbers and random suffixes removed.
func fileClass(p string) string {
	n := filepath.Base(p)
	parts := strings.Split(n, ".")
	var out []string
	for i, s := range parts {
		if i == 0 && len(s) == 20 {
			continue
		}
		if i > 0 && parts[i-1] == "rewrite" {
			continue // random suffix
		}
		out = append(out, s)
	}
	return strings.Join(out, ".")
}

func evName(e *sim.FSEvent) string {
	switch e.Kind {
	case sim.EvOpen:
		if e.Created {
			return "create(" + fileClass(e.Path) + ")"
		}
		return "truncate-open(" + fileClass(e.Path) + ")"
	case sim.EvWrite:
		if len(e.Data) == 8 && hasFileHeader(e.Data) {
			return "write-header(" + fileClass(e.Path) + ")"
		}
		return "append(" + fileClass(e.Path) + ")"
	case sim.EvTruncate:
		return "truncate(" + fileClass(e.Path) + ")"
	case sim.EvFsync:
		return "fsync(" + fileClass(e.Path) + ")"
	case sim.EvFsyncDir:
		return "fsyncdir"
	case sim.EvRename:
		return "rename(" + fileClass(e.Path) + "->" + fileClass(e.Path2) + ")"
	case sim.EvRemove:
		return "remove(" + fileClass(e.Path) + ")"
	case sim.EvRemoveAll:
		return "removeall"
	case sim.EvMkdir:
		return "mkdir"
	case sim.EvLink:
		return "link"
	case sim.EvChtimes:
		return "chtimes"
	}
	return "event"
}
