package harness

import (
	"fmt"
	"os"
	"path/filepath"
	"sort"

	"github.com/klev-dev/klevdb"
	"github.com/klev-dev/klevdb/verifsim/refcodec"
)

type segInfo struct {
	Base int64
	Ver  int // refcodec.V1/V2, 0 = undetermined (empty file)
	Size int64
}

// segLayout reads the version of every segment log file from its first bytes.
func segLayout(dir string) []segInfo {
	var out []segInfo
	for _, b := range segmentBases(dir) {
		p := filepath.Join(dir, fmt.Sprintf("%020d.log", b))
		si := segInfo{Base: b}
		if f, err := os.Open(p); err == nil {
			var h [8]byte
			n, _ := f.ReadAt(h[:], 0)
			if st, err := f.Stat(); err == nil {
				si.Size = st.Size()
			}
			f.Close()
			if n == 8 {
				if v, err := refcodec.LogVersion(h[:], b); err == nil {
					si.Ver = v
				}
			}
		}
		out = append(out, si)
	}
	return out
}

func segOf(layout []segInfo, off int64) *segInfo {
	i := sort.Search(len(layout), func(i int) bool { return layout[i].Base > off })
	if i == 0 {
		return nil
	}
	return &layout[i-1]
}

// storageSize is the number of bytes a message occupies in a segment of the given version
// plus its index item.
func storageSize(m Msg, ver int, keys, times bool) int64 {
	return refcodec.RecordSize(ver, len(m.Key), len(m.Val)) + refcodec.ItemSize(times, keys)
}

func hooksC12() Hooks {
	h := Hooks{Strict: []string{"Delete"}}
	h.AfterOpen = func(r *Run) { r.Ctx["layout"] = segLayout(r.Dir) }
	h.Refresh = h.AfterOpen
	h.AfterStep = func(r *Run, op *Op) {
		r.Ctx["layout"] = segLayout(r.Dir)
		r.noteState()
	}
	h.OnDelete = func(r *Run, kind string, req []int64, before *Model, got []Msg, gotOffs []int64, size int64, err error) {
		switch kind {
		case "Delete", "DeleteMulti", "DeleteMultiOffsets":
		default:
			return // trims and compactions are C15/C16
		}
		layout, _ := r.Ctx["layout"].([]segInfo)
		reqSet := boolSet(req)
		hasRel := len(req) > 0 && req[0] < 0
		unchanged := func(what string) bool {
			live, _, diag := r.scan(int64(1 + r.Obs.Intn(9)))
			if diag != "" {
				r.violate(kind+"|scan-after|"+scanDiagKind(diag), "%s: scan after the call failed: %s", what, diag)
				return false
			}
			if d := diffLive(live, before.Live); d != "" {
				r.violate(kind+"|changed-although-"+what, "%s %v: the log changed although the call %s: %s", kind, req, what, d)
				return false
			}
			return true
		}
		if hasRel {
			r.probe("relative_delete")
			if kind == "Delete" {
				if classify(err) != EInvalidOffset {
					r.violate("Delete|relative|got="+resKind(err), "Delete(%v) with a relative offset: want ErrInvalidOffset, got %v err=%v", req, gotOffs, err)
					return
				}
			} else if err == nil && len(gotOffs) > 0 {
				r.violate(kind+"|relative|deleted", "%s(%v) with a relative offset deleted %v", kind, req, gotOffs)
				return
			}
			if len(gotOffs) == 0 {
				unchanged("rejected-relative")
			}
			return
		}
		if len(req) == 0 {
			if err != nil || len(gotOffs) != 0 || size != 0 {
				r.violate(kind+"|empty-set", "%s of the empty set returned %v size=%d err=%v", kind, gotOffs, size, err)
				return
			}
			r.probe("empty_delete")
			unchanged("empty-set")
			return
		}
		lowestLive := before.IsLive(req[0])
		if err != nil {
			if lowestLive && len(gotOffs) == 0 {
				// reported as unexpected error by the executor (Strict)
				return
			}
			if !lowestLive && len(gotOffs) == 0 {
				unchanged("failed")
				return
			}
		}
		// returned ⊆ requested ∩ live, full content
		var want int64
		for i, o := range gotOffs {
			if !reqSet[o] {
				r.violate(kind+"|returned-not-requested", "%s(%v) reports offset %d as deleted", kind, req, o)
				return
			}
			bm, live := before.Get(o)
			if !live {
				r.violate(kind+"|returned-not-live", "%s(%v) reports offset %d as deleted, it was not live", kind, req, o)
				return
			}
			if got != nil && i < len(got) && !sameMsg(got[i], bm) {
				r.violate(kind+"|returned-content", "%s(%v) returned %v, the message was %v", kind, req, got[i], bm)
				return
			}
			if si := segOf(layout, o); si != nil && si.Ver != 0 {
				want += storageSize(bm, si.Ver, before.Keys, before.Times)
			} else {
				want = -1 << 40
			}
		}
		for i := 1; i < len(gotOffs); i++ {
			if gotOffs[i] == gotOffs[i-1] {
				r.violate(kind+"|returned-twice", "%s(%v) reports offset %d twice", kind, req, gotOffs[i])
				return
			}
		}
		if want >= 0 && size != want {
			r.violate(kind+"|size", "%s(%v) deleted %v and reports size %d, the storage sizes add up to %d", kind, req, gotOffs, size, want)
			return
		}
		// only those gone (the model already removed exactly the reported ones)
		live, _, diag := r.scan(int64(1 + r.Obs.Intn(9)))
		if diag != "" {
			r.violate(kind+"|scan-after|"+scanDiagKind(diag), "%s(%v): scan after the call failed: %s", kind, req, diag)
			return
		}
		if d := diffLive(live, r.M.Live); d != "" {
			r.violate(kind+"|"+diffKind(d)+"-other-than-reported", "%s(%v) reported %v: %s", kind, req, gotOffs, d)
			return
		}
		// progress
		if lowestLive && err == nil && !boolSet(gotOffs)[req[0]] {
			r.violate(kind+"|no-progress", "%s(%v): the smallest requested offset %d was live and was not deleted (reported %v)", kind, req, req[0], gotOffs)
			return
		}
		if kind != "Delete" && err == nil {
			allLive := true
			for _, o := range req {
				if !before.IsLive(o) {
					allLive = false
				}
			}
			if allLive {
				r.probe("multi_all_live")
				if len(gotOffs) != len(req) {
					r.violate(kind+"|incomplete", "%s over live offsets %v removed only %v", kind, req, gotOffs)
					return
				}
			}
		}
		if len(gotOffs) > 0 {
			r.probe("delete_checked")
			if s0, s1 := segOf(layout, gotOffs[0]), segOf(layout, gotOffs[len(gotOffs)-1]); s0 != nil && s1 != nil && s0.Base != s1.Base {
				r.probe("spanning_segments")
			}
			// deleting again deletes nothing
			var again []klevdb.Message
			var sz2 int64
			err2 := guard(func() error {
				var e error
				again, sz2, e = r.L.Delete(offsetSet(gotOffs))
				return e
			})
			if len(again) > 0 || sz2 != 0 {
				r.violate("Delete|again", "Delete(%v) of already deleted offsets returned %v size=%d", gotOffs, msgOffs(fromKs(again)), sz2)
				return
			}
			if err2 != nil && classify(err2) == EOther {
				r.violate("Delete|again|error", "Delete(%v) of already deleted offsets failed: %v", gotOffs, err2)
				return
			}
			live2, _, diag := r.scan(5)
			if diag == "" {
				if d := diffLive(live2, r.M.Live); d != "" {
					r.violate("Delete|again|changed", "Delete(%v) of already deleted offsets changed the log: %s", gotOffs, d)
				}
			}
		}
	}
	return h
}
