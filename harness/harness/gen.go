package harness

import (
	"encoding/binary"
	"encoding/hex"
)

// Real FNV-1a-64 collisions between distinct 8-byte keys (DESIGN.md C09), verified by
// TestCollisions at start-up of every keys-profile worker.
var collidingPairsHex = [][2]string{
	{"2394f2e13875169f", "abae888714a2d85c"},
	{"b360f9f56548ca23", "fc229c4fe7eedcef"},
	{"5c57c0816b3694d0", "67f66d3dc2ae1aea"},
	{"ca8a0535b9527fb3", "9cd94c8fc0ccc37a"},
}

func CollidingPairs() [][2][]byte {
	var out [][2][]byte
	for _, p := range collidingPairsHex {
		a, _ := hex.DecodeString(p[0])
		b, _ := hex.DecodeString(p[1])
		out = append(out, [2][]byte{a, b})
	}
	return out
}

const defaultStartUS = int64(1704067200000000) // 2024-01-01T00:00:00Z

var rollovers = []int64{1, 7, 8, 9, 40, 100, 200, 400, 1000, 0}

// profile = weights of op kinds plus generator switches.
type profile struct {
	name                                                            string
	pub, del, delmulti, trim, cmp, compact, gc, clock, sync, reopen int
	minOps, maxOps                                                  int
	forceKeys, forceTimes, forceMono                                int  // percent
	kv                                                              bool // few keys, tombstones
	collide                                                         bool
	smallRoll                                                       int // percent of runs with rollover <= 200
	rmIdx, tools                                                    int // percent of reopens
	noIdxLoss                                                       bool
	bigVals                                                         bool
	tailBias                                                        bool
	roReopen                                                        int // percent of reopens that are read-only sessions
	every                                                           int
	foreign                                                         int
}

var profiles = map[string]profile{
	"fidelity": {name: "fidelity", pub: 40, del: 15, delmulti: 5, trim: 6, cmp: 4, compact: 1, gc: 4, clock: 4, sync: 2, reopen: 20,
		minOps: 12, maxOps: 45, smallRoll: 75, rmIdx: 30, tools: 20},
	"offsets": {name: "offsets", pub: 40, del: 25, delmulti: 5, trim: 3, sync: 5, reopen: 22, gc: 1,
		minOps: 10, maxOps: 40, smallRoll: 75, rmIdx: 15, tools: 10, tailBias: true},
	"holes": {name: "holes", pub: 35, del: 35, delmulti: 8, trim: 4, gc: 5, clock: 3, reopen: 10,
		minOps: 10, maxOps: 35, smallRoll: 90, rmIdx: 20, tools: 5},
	"keys": {name: "keys", pub: 45, del: 25, delmulti: 5, cmp: 3, gc: 3, clock: 2, reopen: 15,
		minOps: 10, maxOps: 40, forceKeys: 88, kv: true, collide: true, smallRoll: 85, rmIdx: 30, tools: 10},
	"times": {name: "times", pub: 45, del: 22, delmulti: 5, trim: 3, gc: 3, clock: 3, reopen: 18,
		minOps: 10, maxOps: 40, forceTimes: 88, forceMono: 100, smallRoll: 90, rmIdx: 35, tools: 15},
	"deletes": {name: "deletes", pub: 35, del: 40, delmulti: 12, gc: 2, reopen: 15,
		minOps: 10, maxOps: 35, smallRoll: 85, rmIdx: 35, tools: 5},
	"trim": {name: "trim", pub: 40, del: 15, trim: 35, gc: 2, clock: 2, reopen: 9,
		minOps: 10, maxOps: 35, smallRoll: 85, rmIdx: 30},
	"kv": {name: "kv", pub: 45, del: 8, cmp: 30, compact: 6, clock: 6, gc: 1, reopen: 7,
		minOps: 10, maxOps: 40, kv: true, smallRoll: 85, rmIdx: 30},
	"versions": {name: "versions", pub: 40, del: 22, delmulti: 4, gc: 2, reopen: 30,
		minOps: 10, maxOps: 40, smallRoll: 85, rmIdx: 15, tools: 45},
	"index": {name: "index", pub: 42, del: 18, delmulti: 4, trim: 3, gc: 3, clock: 2, reopen: 26,
		minOps: 10, maxOps: 36, smallRoll: 85, rmIdx: 20, tools: 10, roReopen: 0},
	"format": {name: "format", pub: 50, del: 15, delmulti: 3, gc: 2, sync: 2, reopen: 20,
		minOps: 8, maxOps: 30, smallRoll: 70, rmIdx: 25, tools: 15, bigVals: true, foreign: 8},
	"backup": {name: "backup", pub: 50, del: 22, delmulti: 4, trim: 3, gc: 3, clock: 2, sync: 2, reopen: 14,
		minOps: 8, maxOps: 30, smallRoll: 85, rmIdx: 20, tools: 15},
	"lock": {name: "lock", pub: 60, del: 30, reopen: 10, minOps: 5, maxOps: 30, smallRoll: 85},
	"protocol": {name: "protocol", pub: 40, del: 30, delmulti: 6, sync: 6, reopen: 14, gc: 1,
		minOps: 6, maxOps: 16, smallRoll: 95, rmIdx: 10, tools: 30, tailBias: true},
}

type genState struct {
	rng     *Rng
	p       profile
	cfg     *RunCfg
	regime  int // 0 strict increasing, 1 equal runs, 2 arbitrary, 3 zero-heavy
	sizes   int // 0 empty, 1 <= 8, 2 <= 300
	valCtr  uint32
	cur     OpenOpts
	allowRO bool
}

func genKeySet(rng *Rng, p profile) [][]byte {
	var ks [][]byte
	if p.kv || rng.Chance(50) {
		ks = append(ks, nil, []byte{}, []byte("a"), []byte("b"))
		if rng.Chance(50) {
			ks = append(ks, []byte("key-c"))
		}
	} else {
		n := rng.Range(3, 12)
		for i := 0; i < n; i++ {
			ks = append(ks, rng.Bytes(rng.Range(1, 10)))
		}
		if rng.Chance(50) {
			ks = append(ks, nil)
		}
		if rng.Chance(20) {
			ks = append(ks, rng.Bytes(rng.Range(100, 300)))
		}
	}
	if p.collide || rng.Chance(15) {
		pairs := CollidingPairs()
		n := rng.Range(1, 2)
		for i := 0; i < n; i++ {
			pr := pairs[rng.Intn(len(pairs))]
			ks = append(ks, pr[0], pr[1])
		}
	}
	return ks
}

func (g *genState) genOpenOpts(first bool) OpenOpts {
	rng := g.rng
	o := g.cur
	if first || rng.Chance(50) {
		if rng.Chance(g.p.smallRoll) {
			o.Rollover = rollovers[rng.Intn(7)]
		} else {
			o.Rollover = rollovers[rng.Intn(len(rollovers))]
		}
	}
	o.Check, o.Recover, o.Readonly = false, false, false
	if !first && (!g.cfg.Times || g.cfg.Monotone) {
		switch rng.Pick(55, 20, 20, 5) {
		case 1:
			o.Check = true
		case 2:
			o.Recover = true
		case 3:
			o.Check, o.Recover = true, true
		}
	}
	if first || rng.Chance(40) {
		o.NewV = rng.Pick(30, 30, 40) // 0 unset, 1, 2
	}
	if first || rng.Chance(30) {
		o.Keep = rng.Chance(40)
	}
	o.Eager = !first && rng.Chance(15)
	if first || rng.Chance(20) {
		o.AutoSync = rng.Chance(25)
	}
	return o
}

func genRunCfg(rng *Rng, p profile) (*RunCfg, *genState) {
	cfg := &RunCfg{Profile: p.name, StartUS: defaultStartUS + rng.I64(0, 1000000)}
	if rng.Chance(8) {
		// a clock around (mostly before) the Unix epoch: message times are negative microsecond counts
		cfg.StartUS = -rng.I64(0, 3000000)
	}
	cfg.Keys = rng.Bool()
	cfg.Times = rng.Bool()
	if p.forceKeys > 0 {
		cfg.Keys = rng.Chance(p.forceKeys)
	}
	if p.forceTimes > 0 {
		cfg.Times = rng.Chance(p.forceTimes)
	}
	g := &genState{rng: rng, p: p, cfg: cfg}
	g.regime = rng.Pick(30, 30, 25, 15)
	if p.forceMono > 0 && rng.Chance(p.forceMono) {
		g.regime = rng.Pick(40, 60)
	}
	if p.name == "protocol" {
		// Recover is combined with a time index only for never-decreasing times
		if cfg.Times {
			g.regime = rng.Pick(40, 60)
		}
	}
	cfg.Monotone = g.regime <= 1
	g.sizes = rng.Pick(15, 55, 30)
	cfg.KeySet = genKeySet(rng, p)
	cfg.ObsSeed = rng.U64()
	cfg.Every = p.every
	g.cur = g.genOpenOpts(true)
	if p.name == "protocol" {
		g.cur.AutoSync = rng.Bool()
	}
	cfg.Open = g.cur
	return cfg, g
}

func (g *genState) genVal() []byte {
	rng := g.rng
	g.valCtr++
	if g.p.kv && rng.Chance(25) {
		return nil // tombstone
	}
	switch g.sizes {
	case 0:
		if rng.Chance(70) {
			if rng.Bool() {
				return nil
			}
			return []byte{}
		}
	}
	n := 0
	switch g.sizes {
	case 0, 1:
		n = rng.Range(4, 8)
	case 2:
		n = rng.Range(4, 300)
	}
	if g.p.bigVals && rng.Chance(2) {
		n = 65536 + rng.Intn(100)
	}
	v := make([]byte, n)
	binary.BigEndian.PutUint32(v, g.valCtr) // unique values: every read is attributable
	for i := 4; i < n; i++ {
		v[i] = byte('a' + (i+int(g.valCtr))%26)
	}
	return v
}

func (g *genState) genMsg() PMsg {
	rng := g.rng
	m := PMsg{Key: g.cfg.KeySet[rng.Intn(len(g.cfg.KeySet))], Val: g.genVal()}
	if rng.Chance(30) {
		m.Junk = rng.I64(-5, 1000)
	}
	switch g.regime {
	case 0:
		m.TMode, m.TV = 0, rng.I64(1, 5)
		if rng.Chance(8) {
			m.TMode = 2
		}
	case 1:
		m.TMode = 0
		if rng.Chance(55) {
			m.TV = 0
		} else {
			m.TV = rng.I64(1, 3)
		}
		if rng.Chance(5) {
			m.TMode = 2
		}
	case 2:
		switch rng.Pick(50, 25, 10, 10, 5) {
		case 0:
			m.TMode, m.TV = 1, g.cfg.StartUS+rng.I64(-2000000, 2000000)
		case 1:
			m.TMode, m.TV = 0, rng.I64(-50, 50)
		case 2:
			m.TMode = 2
		case 3:
			// whole int64 microsecond range, incl. the instant that IsZero
			m.TMode = 1
			switch rng.Intn(5) {
			case 0:
				m.TV = -62135596800000000
			case 1:
				m.TV = 1<<63 - 1
			case 2:
				m.TV = -1 << 63
			case 3:
				m.TV = 0
			default:
				m.TV = int64(rng.U64())
			}
		default:
			m.TMode, m.TV = 1, rng.I64(-1000, 1000)
		}
	case 3:
		if rng.Chance(60) {
			m.TMode = 2
		} else {
			m.TMode, m.TV = 0, rng.I64(-10, 10)
		}
	}
	return m
}

func (g *genState) genPub() Op {
	rng := g.rng
	n := 1
	switch rng.Pick(5, 35, 40, 20) {
	case 0:
		n = 0
	case 2:
		n = rng.Range(2, 5)
	case 3:
		n = rng.Range(6, 12)
	}
	op := Op{K: "pub"}
	for i := 0; i < n; i++ {
		op.Msgs = append(op.Msgs, g.genMsg())
	}
	if n > 0 && g.p.name != "protocol" && rng.Intn(120) == 0 {
		// one message of the batch is beyond the 64 MiB the writers accept: the Publish is
		// refused, and nothing of the batch may ever show up
		i := rng.Intn(n)
		op.Msgs[i].Pad = maxBody + 1 + int64(rng.Intn(64)) - int64(len(op.Msgs[i].Key)+len(op.Msgs[i].Val))
		if rng.Chance(40) {
			// key and value each within the limit, together beyond it
			op.Msgs[i].KPad = op.Msgs[i].Pad / 2
			op.Msgs[i].Pad -= op.Msgs[i].KPad
		}
	}
	return op
}

func (g *genState) genSel() *OffSel {
	rng := g.rng
	w := []int{30, 10, 15, 5, 10, 15, 5, 3, 5, 2}
	if g.p.tailBias {
		w[2], w[3] = 35, 12
	}
	switch rng.Pick(w...) {
	case 0:
		s := &OffSel{Kind: "live"}
		for i, n := 0, rng.Range(1, 3); i < n; i++ {
			s.Abs = append(s.Abs, int64(rng.Intn(1000)))
		}
		return s
	case 1:
		return &OffSel{Kind: "first", A: int64(rng.Range(1, 4))}
	case 2:
		return &OffSel{Kind: "last", A: int64(rng.Range(1, 4))}
	case 3:
		return &OffSel{Kind: "all"}
	case 4:
		return &OffSel{Kind: "range", A: int64(rng.Intn(1000)), B: int64(rng.Intn(1000))}
	case 5:
		return &OffSel{Kind: "seg", A: int64(rng.Pick(50, 30, 20)), B: int64(rng.Intn(5))}
	case 6:
		s := &OffSel{Kind: "dead"}
		for i, n := 0, rng.Range(1, 3); i < n; i++ {
			s.Abs = append(s.Abs, int64(rng.Intn(1000)))
		}
		return s
	case 7:
		return &OffSel{Kind: "future", A: int64(rng.Range(0, 3))}
	case 8:
		s := &OffSel{Kind: "mix"}
		for i, n := 0, rng.Range(2, 3); i < n; i++ {
			s.Sub = append(s.Sub, *g.genSelSimple())
		}
		return s
	default:
		s := &OffSel{Kind: "rel", Abs: []int64{int64(-1 - rng.Intn(2))}}
		if rng.Bool() {
			return &OffSel{Kind: "mix", Sub: []OffSel{*s, {Kind: "live", Abs: []int64{int64(rng.Intn(1000))}}}}
		}
		return s
	}
}

func (g *genState) genSelSimple() *OffSel {
	rng := g.rng
	switch rng.Pick(40, 15, 15, 15, 15) {
	case 0:
		return &OffSel{Kind: "live", Abs: []int64{int64(rng.Intn(1000)), int64(rng.Intn(1000))}}
	case 1:
		return &OffSel{Kind: "dead", Abs: []int64{int64(rng.Intn(1000))}}
	case 2:
		return &OffSel{Kind: "future", A: int64(rng.Range(0, 2))}
	case 3:
		return &OffSel{Kind: "last", A: int64(rng.Range(1, 2))}
	default:
		return &OffSel{Kind: "seg", A: int64(rng.Intn(3)), B: int64(rng.Intn(5))}
	}
}

func (g *genState) genTimeSel() *TimeSel {
	rng := g.rng
	switch rng.Pick(50, 15, 15, 10, 10) {
	case 0:
		return &TimeSel{Kind: "live", P: int64(rng.Intn(1000)), D: rng.I64(-2, 2)}
	case 1:
		return &TimeSel{Kind: "max", D: rng.I64(-3, 3)}
	case 2:
		return &TimeSel{Kind: "min", D: rng.I64(-3, 3)}
	case 3:
		return &TimeSel{Kind: "now", D: rng.I64(-5000000, 5000000)}
	default:
		if rng.Bool() {
			return &TimeSel{Kind: "abs", Abs: 0}
		}
		return &TimeSel{Kind: "abs", Abs: 1 << 61}
	}
}

func (g *genState) genTrim() Op {
	rng := g.rng
	op := Op{A: int64(rng.Pick(25, 50, 25)), C: int64(rng.Pick(68, 15, 6, 4, 2, 3, 2))}
	switch rng.Pick(30, 25, 20, 25) {
	case 0:
		op.K = "trim_off"
		switch rng.Pick(60, 15, 10, 10, 5) {
		case 0:
			op.Sel = &OffSel{Kind: "live", Abs: []int64{int64(rng.Intn(1000))}}
			op.B = rng.I64(-1, 1)
		case 1:
			op.Sel = &OffSel{Kind: "future", A: 0}
			op.B = rng.I64(-1, 3)
		case 2:
			op.B = rng.I64(0, 3)
		case 3:
			op.Sel = &OffSel{Kind: "dead", Abs: []int64{int64(rng.Intn(1000))}}
		default:
			op.B = -1 - int64(rng.Intn(2)) // OffsetNewest / OffsetOldest
		}
	case 1:
		op.K = "trim_cnt"
		op.B = int64(rng.Pick(10, 70, 10, 10))
		switch op.B {
		case 0:
			op.B = 0
		case 1:
			op.B = int64(rng.Range(100, 950))
		case 2:
			op.B = 1000
		default:
			op.B = int64(rng.Range(1001, 1500))
		}
	case 2:
		op.K = "trim_size"
		switch rng.Pick(8, 72, 10, 10) {
		case 0:
			op.B = 0
		case 1:
			op.B = int64(rng.Range(100, 990))
		case 2:
			op.B = 1000
		default:
			op.B = int64(rng.Range(1001, 1400))
		}
	default:
		op.K = "trim_age"
		op.T = g.genTimeSel()
	}
	return op
}

func (g *genState) genCmp() Op {
	rng := g.rng
	op := Op{A: int64(rng.Pick(25, 50, 25)), C: int64(rng.Pick(71, 12, 6, 4, 2, 3, 2)), T: g.genTimeSel()}
	if rng.Bool() {
		op.K = "cmp_upd"
	} else {
		op.K = "cmp_del"
	}
	return op
}

func (g *genState) genReopen() Op {
	rng := g.rng
	o := g.genOpenOpts(false)
	op := Op{K: "reopen"}
	if !g.p.noIdxLoss && rng.Chance(g.p.rmIdx) {
		if rng.Chance(40) {
			op.RmIdx = []int64{-1}
		} else {
			for i, n := 0, rng.Range(1, 2); i < n; i++ {
				op.RmIdx = append(op.RmIdx, int64(rng.Intn(1000)))
			}
		}
	}
	if rng.Chance(g.p.tools) {
		cands := []string{"migrate1", "migrate2"}
		if !g.cfg.Times || g.cfg.Monotone {
			cands = append(cands, "recover", "check")
		}
		for i, n := 0, rng.Range(1, 2); i < n; i++ {
			op.Tools = append(op.Tools, cands[rng.Intn(len(cands))])
		}
	}
	if g.p.name != "protocol" && rng.Chance(20) {
		op.Peek = rng.Range(1, 2)
	}
	if g.p.name == "protocol" && rng.Chance(30) {
		// the process is killed instead of closing the log (engine K)
		op.K = "kill"
	}
	g.cur = o
	op.Open = &o
	return op
}

func (g *genState) genOp() Op {
	rng := g.rng
	p := g.p
	switch rng.Pick(p.pub, p.del, p.delmulti, p.trim, p.cmp, p.compact, p.gc, p.clock, p.sync, p.reopen, p.foreign) {
	case 0:
		return g.genPub()
	case 1:
		return Op{K: "del", Sel: g.genSel()}
	case 2:
		return Op{K: "delmulti", Sel: g.genSel(), A: int64(rng.Intn(2)), B: int64(rng.Pick(66, 14, 7, 4, 3, 4, 2))}
	case 3:
		return g.genTrim()
	case 4:
		return g.genCmp()
	case 5:
		return Op{K: "compact", A: []int64{0, 1, 1000, 1000000, 3600000000}[rng.Intn(5)], B: int64(rng.Pick(73, 12, 5, 3, 2, 3, 2))}
	case 6:
		return Op{K: "gc", A: []int64{0, 0, 1000000, 3600000000}[rng.Intn(4)]}
	case 7:
		d := rng.I64(0, 10000000)
		switch rng.Pick(80, 10, 10) {
		case 1:
			d = rng.I64(1, 5) * 3600000000
		case 2:
			d = -rng.I64(1, 5) * 3600000000
		}
		return Op{K: "clock", A: d}
	case 8:
		return Op{K: "sync"}
	case 10:
		op := g.genReopen()
		op.K, op.RmIdx, op.Tools = "foreign", nil, nil
		op.A = int64(rng.Range(1, 2))
		op.B = int64(rng.Pick(35, 65))
		op.C = int64(rng.Pick(90, 10))
		op.Open.Eager = false
		for i, n := 0, rng.Range(1, 5); i < n; i++ {
			m := g.genMsg()
			m.Junk = 0
			if m.TMode == 2 {
				m.TMode, m.TV = 0, 1
			}
			op.Msgs = append(op.Msgs, m)
		}
		return op
	default:
		return g.genReopen()
	}
}

// genPlanHuge: the size boundary of a record. A message whose key+value is within a few
// bytes of the 64 MiB the writers accept must read back like any other (C13: "and a few
// large"); it is expensive, so only about one run in 400 of the format profile does it.
func genPlanHuge(prop, tier string, seed uint64, run int64, rng *Rng) *Plan {
	cfg := RunCfg{Profile: "format", StartUS: defaultStartUS, Keys: rng.Bool(), Times: rng.Bool(), Monotone: true, ObsSeed: rng.U64(),
		KeySet: [][]byte{nil, []byte("a")}, Open: OpenOpts{Rollover: 0, NewV: rng.Pick(0, 40, 60)}}
	plan := &Plan{Prop: prop, Engine: "H", Tier: tier, Seed: seed, Run: run, Cfg: cfg}
	const limit = 64 << 20
	d := []int{0, 1, 8, 31, 32, 33, 100}[rng.Intn(7)]
	key := []byte("huge-key-1")
	val := make([]byte, limit-len(key)-d)
	for i := 0; i < len(val); i += 4096 {
		val[i] = byte(i >> 12)
	}
	small := func(c byte) PMsg { return PMsg{Key: []byte("a"), Val: []byte{0, 0, 0, c, 'x'}, TMode: 0, TV: 1} }
	plan.Ops = []Op{
		{K: "pub", Msgs: []PMsg{small(1)}},
		{K: "pub", Msgs: []PMsg{{Key: key, Val: val, TMode: 0, TV: 1}}},
		{K: "pub", Msgs: []PMsg{small(2)}},
	}
	if rng.Bool() {
		o := cfg.Open
		plan.Ops = append(plan.Ops, Op{K: "reopen", Open: &o})
	}
	return plan
}

// GenPlanH builds the plan of one engine-H run.
func GenPlanH(prop, profName, tier string, seed uint64, run int64) *Plan {
	rng := NewRng(seed)
	p := profiles[profName]
	if profName == "format" && rng.Intn(400) == 0 {
		return genPlanHuge(prop, tier, seed, run, rng)
	}
	cfg, g := genRunCfg(rng, p)
	n := rng.Range(p.minOps, p.maxOps)
	if tier == "thorough" && rng.Chance(30) {
		n += rng.Range(10, 40)
	}
	plan := &Plan{Prop: prop, Engine: "H", Tier: tier, Seed: seed, Run: run, Cfg: *cfg}
	// start with a few publishes so that selectors have something to bite on
	warm := rng.Range(1, 4)
	for i := 0; i < warm; i++ {
		plan.Ops = append(plan.Ops, g.genPub())
	}
	for len(plan.Ops) < n {
		plan.Ops = append(plan.Ops, g.genOp())
	}
	return plan
}
