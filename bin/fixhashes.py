#!/usr/bin/env python3
"""Rewrites the commit hashes of the 'fixed:' lines of KNOWN_FINDINGS.txt from the subjects of the fix: commits in /repo."""
import subprocess, re
log = subprocess.run(["git", "-C", "/repo", "log", "--format=%h %s"], capture_output=True, text=True).stdout.splitlines()
fixes = [l.split(" ", 1) for l in log if " fix:" in " " + l]
table = [  # (property, subject substring, what failed)
 ("C01", "never roll over a head segment", 'Rollover below the 8-byte V2 header (or an empty Publish right after a rollover): an empty head segment was rolled over onto its own files; Consume(OffsetOldest) failed with "no offset items" or panicked after a later delete (findings/C01-empty-head-rollover*.json)'),
 ("C02", "a Publish that is refused because of one oversized message", "a batch with a message beyond 64 MiB behind valid ones: Publish failed but the messages in front were already in the files and their offsets were handed out again; after a reopen or a delete rewrite the log showed the refused messages, one offset twice, and Get returned the wrong one (findings/C02-refused-batch-prefix-written.json, findings/C01-refused-batch-prefix-written.json)"),
 ("C03", "Consume with a very large maxCount", "Consume(off, maxCount) allocated maxCount messages up front: math.MaxInt64 panicked (makeslice: len out of range), math.MaxInt32 ended the process with 'out of memory' on a log of two messages (findings/C03-consume-huge-maxcount.json)"),
 ("C12", "deleting from a segment whose index file is missing", 'Delete/DeleteMulti on a segment whose index file was lost and not yet rebuilt failed with "remove index delete: no such file or directory" (findings/C12-delete-missing-index.json)'),
 ("C04", "Get(OffsetNewest) with an empty head", "Get(OffsetNewest) failed with ErrInvalidOffset on a non-empty log whose head segment is empty after a tail delete (findings/C04-get-newest-empty-head.json)"),
 ("C10", "GetByTime with an empty head segment", 'GetByTime/OffsetByTime failed with ErrInvalidOffset ("no time items") while the head segment is empty (findings/C10-getbytime-empty-head.json, findings/C15-findbyage-empty-head.json)'),
 ("C10", "GetByTime returns the first of equal-time", "equal timestamps on both sides of a segment boundary: GetByTime returned the first message of the newer segment instead of the first message with that time (findings/C10-equal-times-across-segments.json)"),
 ("C13", "Stat and Backup work on segments whose index", 'Log.Stat (and FindByCount/FindBySize, Log.Backup) failed with "no such file or directory" after an index file was lost, until the segment had been read (findings/C13-stat-missing-index.json, findings/C11-stat-missing-index.json)'),
 ("C15", "FindByAge on a log without messages", "FindByAge/TrimByAge failed with ErrInvalidOffset on a log without messages (findings/C15-findbyage-empty-log.json)"),
 ("C05", "a tail delete creates the new head segment", "tail delete of the head: the rewritten segment was swapped in before the new empty head (named after NextOffset) existed; a crash in between made Open(Recover) report a NextOffset below the one already returned (findings/C05-tail-delete-next-moved-back.json)"),
 ("C05", "Recover removes a segment that a delete had replaced", "rebasing delete (the lowest message of a segment deleted, the rewrite gets the name of its new first offset): Rename(new) is followed by Remove(old); a crash or power loss after any step from the first rename up to the removal of the old index left two segment files holding the same offsets, Open(Recover) succeeded but Consume, Get, lookups and Stat of the reopened log disagreed; listed as known finding (8 C05 + 4 C06 signatures ...|in=delete|last={rename(log.rewrite->log),rename(index.rewrite->index),fsyncdir,remove(index)}|symptom=overlapping-segments[|depth2]) until it was repaired (findings/C05-known-rebase-overlap.json, findings/C05-known-rebase-overlap-depth2.json, findings/C06-known-rebase-overlap.json)"),
 ("C06", "Recover handles a head log shorter than a file header", 'a head log of 1-7 bytes (first V1 record torn inside its first 8 bytes, or torn V2 header) made Open(Recover) fail for good with "log corrupted: reading header: EOF" (findings/C06-recover-fails-on-short-log.json)'),
 ("C07", "a record header cut short by the end of the file", "a tail shorter than a record header was read as clean end of file (ReadAt returns io.EOF with n>0, the code tested io.ErrUnexpectedEOF): Check passed, Recover kept the fragment, the next Publish buried it (seen as C05 torn|in=pub|last=append(log)|symptom=check-after-append-failed and scan-after-append)"),
 ("C05", "Recover removes a stale .recover file", "a crash during Recover left <seg>.log.recover, which the next Recover appended to: duplicated records behind a stale copy (seen as C05 ...|symptom=second-recover-changed|depth2 and scan-error|did-not-terminate|depth2)"),
 ("C05", "index files are written to a temp file", 'a crash (or power loss) while an index file was being written in place (lazy rebuild, recover, migrate) left a partial index that non-head segments trust for ever: messages invisible after reopen, or "index corrupted" when unaligned (findings/C06-partial-index-trusted.json)'),
 ("C14", "Consume reports corruption instead of panicking", "a log file cut at a record boundary with the index intact: Consume panicked with index out of range [-1] (findings/C14-consume-panic-truncated-log.json)"),
 ("C08", "a delete racing with a rollover", "Delete picks its reader before taking the writer lock; after a concurrent rollover it re-inserted the closed reader of the former writer, which still behaves as head: Consume stops there, Get answers ErrInvalidOffset, newer messages unreachable (findings/C08-delete-vs-rollover-stale-head.json)"),
 ("C08", "ConsumeByKey does not step over messages", "ConsumeByKey on the head looked the key up and read the next offset as two steps: a Publish in between was stepped over without returning its messages (findings/C08-consumebykey-steps-over-publish.json)"),
 ("C08", "Delete with KeepRewriteVersion reads the writer", "data race: delete() read l.writer.messages.Version() without writerMu (KeepRewriteVersion) against the l.writer assignment of a concurrent rollover (log.go:398 vs log.go:180 at the pinned commit)"),
 ("C19", "OpenBlocking closes the log when wrapping it fails", "OpenBlocking left the opened log (and its directory lock) behind when WrapBlocking failed, e.g. a lazy read-only open meeting a corrupt index: every later Open failed with 'already locked' (findings/C19-openblocking-lock-leak.json)"),
 ("C19", "OpenTBlocking closes the log when wrapping it fails", "OpenTBlocking (typed facade) had the same leak as OpenBlocking: the opened log and its directory lock stayed behind when WrapTBlocking failed; found once a share of the runs went through the typed facade (findings/C19-opentblocking-lock-leak.json)"),
 ("C19", "GC on a read-only log without segments", "read-only handle on a directory without segments: GC(0) unloaded the placeholder index and every later query failed with 'no such file or directory' (findings/C19-readonly-empty-gc.json)"),
 ("C15", "the time index no longer clamps timestamps before 1970", "messages dated before the Unix epoch were indexed at time 0 (the running maximum started at 0): GetByTime(1970) returned a message older than the query, FindByAge/TrimByAge with a later bound selected nothing (findings/C15-pre-epoch-times-clamped.json)"),
]
out = []
for prop, sub, text in table:
    h = [f[0] for f in fixes if sub in f[1]]
    assert len(h) == 1, (sub, h)
    out.append("fixed: property=%s %s %s" % (prop, h[0], text))
p = "/verif/KNOWN_FINDINGS.txt"
lines = open(p).read().splitlines()
res, done = [], False
for l in lines:
    if l.startswith("fixed:"):
        if not done:
            res.extend(out); done = True
        continue
    res.append(l)
open(p, "w").write("\n".join(res) + "\n")
print(len(out), "fixed entries;", len(fixes), "fix commits")
