// Package simchan holds the helpers the instrumenter's channel rewrite calls: polling
// send / receive / select so that a task that cannot proceed reports "blocked" to the
// scheduler instead of blocking its OS thread.
package simchan

import (
	"github.com/klev-dev/klevdb/verifsim/sim"
)

func Recv[T any](ch <-chan T) T {
	v, _ := Recv2(ch)
	return v
}

func Recv2[T any](ch <-chan T) (T, bool) {
	if !sim.Active() {
		v, ok := <-ch
		return v, ok
	}
	sim.YieldAt(4)
	for {
		select {
		case v, ok := <-ch:
			sim.Progress()
			return v, ok
		default:
			sim.Blocked()
		}
	}
}

// ErrUnbufferedSend is the panic value for a send on an unbuffered channel, which the
// polling translation cannot rendezvous (DESIGN.md 3.1); the harness maps it to exit 2.
type ErrUnbufferedSend struct{}

func (ErrUnbufferedSend) Error() string {
	return "simchan: send on unbuffered channel is not supported by the polling translation"
}

func Send[T any](ch chan<- T, v T) {
	if !sim.Active() {
		ch <- v
		return
	}
	if ch != nil && cap(ch) == 0 {
		panic(ErrUnbufferedSend{})
	}
	sim.YieldAt(3)
	for {
		select {
		case ch <- v:
			sim.Progress()
			return
		default:
			sim.Blocked()
		}
	}
}

func Close[T any](ch chan<- T) {
	sim.Yield()
	close(ch)
}

// Poll is inserted before a select that has a default clause.
func Poll() { sim.Yield() }

// Forever replaces an empty select.
func Forever() {
	if !sim.Active() {
		select {}
	}
	for {
		sim.Blocked()
	}
}

// Sel drives the polling translation of a blocking select statement.
type Sel struct {
	n     int
	order [16]uint8
	pos   int
	hit   bool
	first bool
}

func NewSel(n int) *Sel {
	if n > 16 {
		panic("simchan: select with more than 16 cases")
	}
	s := &Sel{n: n, first: true}
	s.shuffle()
	if sim.Active() {
		sim.Yield()
	}
	return s
}

func (s *Sel) shuffle() {
	for i := 0; i < s.n; i++ {
		s.order[i] = uint8(i)
	}
	if sim.Active() {
		for i := s.n - 1; i > 0; i-- {
			j := int(sim.Rand64() % uint64(i+1))
			s.order[i], s.order[j] = s.order[j], s.order[i]
		}
	}
	s.pos = 0
}

// Next returns the index of the next case to try; after a full fruitless round it reports
// "blocked" to the scheduler and starts a new round.
func (s *Sel) Next() int {
	if s.pos >= s.n {
		if sim.Active() {
			sim.Blocked()
		} else {
			// inactive shims: fall back to a real blocking wait would need reflection;
			// yield the processor instead (only reached by the repository's own tests)
			gosched()
		}
		s.shuffle()
	}
	i := int(s.order[s.pos])
	s.pos++
	return i
}

func (s *Sel) Hit() {
	s.hit = true
	sim.Progress()
}

func (s *Sel) Done() bool { return s.hit }

// Go replaces a go statement of the code under test: f becomes a new simulated task that
// the scheduler interleaves with the others at their yield points. (The arguments of the
// original call are evaluated when the task first runs, not at the go statement.)
func Go(f func()) {
	s := sim.S
	if !sim.Active() || s == nil {
		go f()
		return
	}
	sim.Yield()
	id := s.Spawn("go")
	go func() {
		s.TaskBegin(id)
		defer s.TaskEnd(id)
		f()
	}()
}
