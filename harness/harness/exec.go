package harness

import (
	"context"
	"errors"
	"fmt"
	"hash/fnv"
	"os"
	"path/filepath"
	"runtime/debug"
	"sort"
	"strings"
	"time"

	"github.com/klev-dev/klevdb"
	"github.com/klev-dev/klevdb/verifsim/sim"
)

type Violation struct {
	Prop string `json:"prop"`
	Sig  string `json:"sig"`
	Msg  string `json:"msg"`
	Step int    `json:"step"`
}

// Hooks are the property-specific oracles plugged into the generic executor.
type Hooks struct {
	AfterOpen    func(r *Run)
	Refresh      func(r *Run) // bookkeeping from the files alone (no call on the log) after a reopen that is not observed
	AfterStep    func(r *Run, op *Op)
	OnPublish    func(r *Run, before int64, in []klevdb.Message, ret int64, err error)
	OnDelete     func(r *Run, kind string, req []int64, before *Model, got []Msg, gotOffs []int64, size int64, err error)
	BeforeClose  func(r *Run)
	AfterClose   func(r *Run)
	OnReopened   func(r *Run, op *Op)
	OnOp         func(r *Run, op *Op) bool // property-specific op kinds; true = handled
	BeforeHelper func(r *Run, op *Op, hc *HelperCall)
	AfterTool    func(r *Run, tool string)
	OpDone       func(r *Run, i int, op *Op) // always called after an operation (engine K bookkeeping)
	Strict       []string                    // call-name prefixes whose unexpected errors are violations of this property
}

type Run struct {
	P        *Plan
	Prop     string
	Base     string // scratch directory of this run
	Dir      string // the log directory
	M        *Model
	L        klevdb.Log
	Opts     klevdb.Options
	OOpts    OpenOpts
	Viol     *Violation
	Abort    string
	Probes   map[string]int
	Obs      *Rng
	Step     int
	H        Hooks
	digest   uint64
	Log      []string // human-readable event log (kept short)
	Feat     map[string]bool
	Deep     bool // evaluate heavy oracles at this step
	Ctx      map[string]any
	Wrap     func(klevdb.Log) klevdb.Log
	Dead     []klevdb.Log // handles of killed "processes": never used again, closed after the run
	cancelOp func()       // cancels the context of the operation in progress
}

func (r *Run) logf(format string, a ...any) {
	s := fmt.Sprintf(format, a...)
	if r.Base != "" {
		s = strings.ReplaceAll(s, r.Base, "<run>")
	}
	h := fnv.New64a()
	h.Write([]byte(s))
	r.digest = Mix(r.digest, h.Sum64())
	if len(r.Log) < 400 {
		if len(s) > 300 {
			s = s[:300] + "..."
		}
		r.Log = append(r.Log, s)
	}
}

func (r *Run) probe(name string) { r.Probes[name]++ }
func (r *Run) feat(name string)  { r.Feat[name] = true }

// violate records the first violation of the run.
func (r *Run) violate(sig, format string, a ...any) {
	if r.Viol != nil || r.Abort != "" {
		return
	}
	msg := fmt.Sprintf(format, a...)
	if r.Base != "" {
		msg = strings.ReplaceAll(msg, r.Base, "<run>")
	}
	r.Viol = &Violation{Prop: r.Prop, Sig: r.Prop + "|" + sig, Msg: msg, Step: r.Step}
	r.logf("VIOLATION %s: %s", r.Viol.Sig, r.Viol.Msg)
}

// abort stops the run for a reason that is not a violation of the property being checked
// (a precondition of the oracle failed; another property's check reports it).
func (r *Run) abort(format string, a ...any) {
	if r.Viol != nil || r.Abort != "" {
		return
	}
	r.Abort = fmt.Sprintf(format, a...)
	r.logf("ABORT %s", r.Abort)
}

func (r *Run) stopped() bool { return r.Viol != nil || r.Abort != "" }

// unexpected handles an error (or panic) of a call that must succeed in a fault-free history.
func (r *Run) unexpected(call string, err error) {
	for _, p := range r.H.Strict {
		if strings.HasPrefix(call, p) {
			r.violate(call+"|unexpected-error|"+errKind(err), "%s failed in a fault-free history: %v", call, err)
			return
		}
	}
	r.abort("%s failed: %v", call, err)
}

// errKind is a coarse, stable classification used in signatures.
func errKind(err error) string {
	c := classify(err)
	if c != EOther {
		return c.String()
	}
	s := err.Error()
	for _, k := range []string{"corrupted", "no such file", "file exists", "panic", "locked", "close failed", "unknown version", "no offset items", "no time items"} {
		if strings.Contains(s, k) {
			return strings.ReplaceAll(k, " ", "-")
		}
	}
	return "other"
}

func (o OpenOpts) K(cfg *RunCfg) klevdb.Options {
	opts := klevdb.Options{
		CreateDirs: true,
		Readonly:   o.Readonly,
		KeyIndex:   cfg.Keys,
		TimeIndex:  cfg.Times,
		AutoSync:   o.AutoSync,
		Rollover:   o.Rollover,
		Check:      o.Check,
		Recover:    o.Recover,
	}
	switch o.NewV {
	case 1:
		opts.Version.NewSegmentsVersion = klevdb.V1
	case 2:
		opts.Version.NewSegmentsVersion = klevdb.V2
	}
	opts.Version.KeepRewriteVersion = o.Keep
	opts.Version.EagerVersionMigrate = o.Eager
	return opts
}

// maxBody: key and value of a message together may not exceed 64 MiB (documented limit of the
// record format; the writers refuse more).
const maxBody = 64 << 20

// pubRefused reports whether the publish of the current step was refused.
func (r *Run) pubRefused() bool {
	v, ok := r.Ctx["pub_refused"].(int)
	return ok && v == r.Step
}

type panicErr struct {
	v     any
	stack string
}

func (p *panicErr) Error() string { return fmt.Sprintf("panic: %v", p.v) }

// guard runs f and converts a panic of the code under test into an error.
func guard(f func() error) (err error) {
	if s := sim.S; s != nil {
		s.BeginCall()
	}
	defer func() {
		if v := recover(); v != nil {
			if _, ok := v.(interface{ infra() }); ok {
				panic(v)
			}
			err = &panicErr{v: v, stack: string(debug.Stack())}
		}
	}()
	return f()
}

func NewRun(p *Plan, base string, h Hooks) *Run {
	r := &Run{P: p, Prop: p.Prop, Base: base, Dir: filepath.Join(base, "log"), H: h,
		Probes: map[string]int{}, Feat: map[string]bool{}, Obs: NewRng(p.Cfg.ObsSeed), Ctx: map[string]any{}}
	r.M = NewModel(p.Cfg.Keys, p.Cfg.Times)
	return r
}

func (r *Run) open(o OpenOpts) error {
	opts := o.K(&r.P.Cfg)
	var l klevdb.Log
	err := guard(func() error {
		var e error
		if r.P.Cfg.Typed {
			l, e = openTyped(r.Dir, opts)
		} else {
			l, e = klevdb.Open(r.Dir, opts)
		}
		return e
	})
	if err != nil {
		return err
	}
	if r.P.Cfg.Typed {
		r.Probes["typed_facade"]++
	}
	if r.Wrap != nil {
		l = r.Wrap(l)
	}
	r.L, r.Opts, r.OOpts = l, opts, o
	return nil
}

// Exec runs the whole plan (single task) and returns after the first violation or abort.
func (r *Run) Exec() {
	sim.BeginInline(r.P.Seed, r.P.Cfg.StartUS)
	defer func() {
		lastClockUS = sim.NowUS()
		sim.End()
	}()
	r.ExecOps()
}

// ExecOps runs the plan inside an already active simulation.
func (r *Run) ExecOps() {
	if err := os.MkdirAll(r.Base, 0o755); err != nil {
		panic(infraErr{err})
	}
	if err := r.open(r.P.Cfg.Open); err != nil {
		r.unexpected("Open(new)", err)
		return
	}
	r.logf("open %+v", r.P.Cfg.Open)
	if r.H.AfterOpen != nil {
		r.H.AfterOpen(r)
	}
	every := r.P.Cfg.Every
	if every <= 0 {
		every = 1
	}
	for i := range r.P.Ops {
		if r.stopped() {
			break
		}
		op := &r.P.Ops[i]
		r.Step = i + 1
		r.Deep = (i+1)%every == 0 || i == len(r.P.Ops)-1
		if fs := sim.FS; fs != nil {
			fs.CurOp = int32(i + 1)
			fs.CurSub = 0
		}
		r.execOp(op)
		if s := sim.S; s != nil && s.Spawned() > 0 && r.Obs.Chance(50) {
			// goroutines started by the code under test get their turn between operations
			s.Drain()
		}
		if r.H.OpDone != nil {
			r.H.OpDone(r, i, op)
		}
		if r.stopped() {
			break
		}
		if r.H.AfterStep != nil && r.L != nil {
			if (op.K == "reopen" || op.K == "kill") && i+1 < len(r.P.Ops) && r.Obs.Chance(35) {
				// no look at the freshly opened log: the next operation meets it as Open left
				// it (lazily loaded segments, index files still missing)
				r.probe("reopen_unobserved")
				if r.H.Refresh != nil {
					r.H.Refresh(r)
				}
				continue
			}
			r.H.AfterStep(r, op)
		}
	}
	if fs := sim.FS; fs != nil {
		fs.CurOp = int32(len(r.P.Ops) + 1)
		fs.CurSub = 0
	}
	if r.L != nil {
		if r.H.BeforeClose != nil && !r.stopped() {
			r.H.BeforeClose(r)
		}
		err := guard(func() error { return r.L.Close() })
		r.L = nil
		if err != nil && !r.stopped() {
			r.unexpected("Close(final)", err)
		}
		if r.H.AfterClose != nil && !r.stopped() {
			r.H.AfterClose(r)
		}
	}
}

type infraErr struct{ err error }

func (infraErr) infra()          {}
func (e infraErr) Error() string { return "infrastructure: " + e.err.Error() }

func (r *Run) resolveMsgs(pm []PMsg) ([]klevdb.Message, []Msg) {
	ks := make([]klevdb.Message, len(pm))
	ms := make([]Msg, len(pm))
	maxUS, has := r.M.MaxUS, r.M.HasAny
	mono := r.P.Cfg.Monotone
	isZero := func(p PMsg) bool {
		// TMode 2, or the one instant that means "unset": klevdb replaces both by now
		return p.TMode == 2 || (p.TMode == 1 && time.UnixMicro(p.TV).IsZero())
	}
	if mono {
		// a zero time is stamped with the clock at Publish: the clock must not be behind what
		// precedes the first such message, and later explicit times in the batch cannot
		// move on (the clock does not advance inside one Publish call)
		m, h := maxUS, has
		for _, p := range pm {
			if isZero(p) {
				if h && sim.NowUS() < m {
					sim.SetClockUS(m)
				}
				break
			}
			if p.TMode == 0 {
				if !h {
					m = sim.NowUS()
				}
				m += p.TV
				h = true
			}
		}
	}
	seenZero := false
	for i, p := range pm {
		var t time.Time
		var us int64
		switch {
		case isZero(p):
			us = sim.NowUS()
			if p.TMode == 1 {
				t = time.UnixMicro(p.TV)
			}
			seenZero = true
		case p.TMode == 0:
			base := maxUS
			if !has {
				base = sim.NowUS()
			}
			tv := p.TV
			if mono && seenZero {
				tv = 0
			}
			us = base + tv
			t = time.UnixMicro(us)
			if t.IsZero() {
				us = sim.NowUS()
			}
		default:
			us = p.TV
			t = time.UnixMicro(us)
		}
		if !has || us > maxUS {
			maxUS = us
		}
		has = true
		val := p.Val
		if p.Pad > 0 {
			val = make([]byte, int64(len(p.Val))+p.Pad)
			copy(val, p.Val)
		}
		key := p.Key
		if p.KPad > 0 {
			key = make([]byte, int64(len(p.Key))+p.KPad)
			copy(key, p.Key)
		}
		ks[i] = klevdb.Message{Offset: p.Junk, Time: t, Key: key, Value: val}
		ms[i] = Msg{US: us, Key: key, Val: val}
	}
	return ks, ms
}

func offsetSet(offs []int64) map[int64]struct{} {
	m := make(map[int64]struct{}, len(offs))
	for _, o := range offs {
		m[o] = struct{}{}
	}
	return m
}

func boolSet(offs []int64) map[int64]bool {
	m := make(map[int64]bool, len(offs))
	for _, o := range offs {
		m[o] = true
	}
	return m
}

func msgOffs(ms []Msg) []int64 {
	out := make([]int64, len(ms))
	for i, m := range ms {
		out[i] = m.Off
	}
	return out
}

func sortedKeys(m map[int64]struct{}) []int64 {
	out := make([]int64, 0, len(m))
	for o := range m {
		out = append(out, o)
	}
	sort.Slice(out, func(i, j int) bool { return out[i] < out[j] })
	return out
}

// errBackoffStop is what the harness's backoff returns when it interrupts a multi helper.
var errBackoffStop = errors.New("verifsim: backoff asked to stop")

// interruptedByHarness: the helper ended early because the harness's backoff made it (its own
// error, or the context the backoff cancelled).
func interruptedByHarness(err error) bool {
	return errors.Is(err, errBackoffStop) || errors.Is(err, context.Canceled)
}

// backoff kinds: 0 none, 1 DeleteMultiWithWait (simulated timer), 2..4 fails at its (kind-1)-th
// call: the helper stops half-way and must report exactly what it removed so far; 5..6
// cancels the context of the call at its (kind-4)-th call and returns nil: whether the helper
// then goes on or stops, what it reports must be what it removed.
func (r *Run) backoff(kind int64) klevdb.DeleteMultiBackoff {
	if kind == 1 {
		return klevdb.DeleteMultiWithWait(time.Millisecond)
	}
	if kind >= 5 {
		calls := int64(0)
		return func(context.Context) error {
			calls++
			if calls >= kind-4 && r.cancelOp != nil {
				r.probe("multi_helper_context_cancelled")
				r.cancelOp()
			}
			return nil
		}
	}
	if kind >= 2 {
		calls := int64(0)
		return func(context.Context) error {
			calls++
			if calls >= kind-1 {
				r.probe("multi_helper_interrupted")
				return errBackoffStop
			}
			return nil
		}
	}
	return func(context.Context) error { return nil }
}

// applyDeleted updates the model after a deleting call reported what it removed, and runs
// the property's delete oracle.
func (r *Run) applyDeleted(kind string, req []int64, got []Msg, gotOffs []int64, size int64, err error) {
	before := r.M
	if r.H.OnDelete != nil {
		before = r.M.Clone()
	}
	if gotOffs == nil {
		gotOffs = msgOffs(got)
	}
	lastLive := int64(-1)
	if n := len(r.M.Live); n > 0 {
		lastLive = r.M.Live[n-1].Off
	}
	r.M.Remove(boolSet(gotOffs))
	r.logf("%s req=%v -> deleted=%v size=%d err=%v", kind, req, gotOffs, size, errStr(err))
	if len(gotOffs) > 0 {
		r.probe("deleted_some")
		if len(r.M.Live) == 0 {
			r.probe("log_emptied")
		} else if lastLive >= 0 && !r.M.IsLive(lastLive) {
			r.probe("tail_deleted")
		}
	}
	if r.H.OnDelete != nil {
		r.H.OnDelete(r, kind, req, before, got, gotOffs, size, err)
	}
}

func (r *Run) execOp(op *Op) {
	if r.L == nil {
		switch op.K {
		case "pub", "del", "delmulti", "trim_off", "trim_cnt", "trim_size", "trim_age", "cmp_upd", "cmp_del", "compact", "gc", "sync":
			return
		}
	}
	ctx, cancel := context.WithCancel(context.Background())
	defer cancel()
	r.cancelOp = cancel
	switch op.K {
	case "pub":
		ks, ms := r.resolveMsgs(op.Msgs)
		before := r.M.Next
		var ret int64
		err := guard(func() error {
			var e error
			ret, e = r.L.Publish(ks)
			return e
		})
		r.logf("pub n=%d -> %d err=%v", len(ks), ret, errStr(err))
		if r.H.OnPublish != nil {
			r.H.OnPublish(r, before, ks, ret, err)
		}
		if err != nil {
			for _, k := range ks {
				if len(k.Key)+len(k.Value) > maxBody {
					// a batch with a message beyond the size the writers accept is refused: as a
					// whole, nothing of it may ever show (the model stays as it is)
					r.probe("publish_refused_oversized")
					r.Ctx["pub_refused"] = r.Step
					return
				}
			}
			r.unexpected("Publish", err)
			return
		}
		r.M.Publish(ms)
		r.probe("publish")
		if len(ks) == 0 {
			r.probe("publish_empty")
		}
	case "del":
		req := op.Sel.Resolve(r.M, r.Dir)
		var got []klevdb.Message
		var size int64
		err := guard(func() error {
			var e error
			got, size, e = r.L.Delete(offsetSet(req))
			return e
		})
		if err != nil {
			// tolerated only when the smallest requested offset is not live (C12); relative
			// offsets must be rejected
			if len(req) > 0 && req[0] < 0 {
				r.logf("del req=%v -> err=%v", req, errStr(err))
				if r.H.OnDelete != nil {
					r.H.OnDelete(r, "Delete", req, r.M.Clone(), nil, nil, size, err)
				}
				return
			}
			if len(req) > 0 && !r.M.IsLive(req[0]) && classify(err) != EOther {
				r.probe("delete_error_tolerated")
				r.applyDeleted("Delete", req, fromKs(got), nil, size, err)
				return
			}
			r.applyDeleted("Delete", req, fromKs(got), nil, size, err)
			if !r.stopped() {
				r.unexpected("Delete", err)
			}
			return
		}
		r.applyDeleted("Delete", req, fromKs(got), nil, size, nil)
	case "delmulti":
		req := op.Sel.Resolve(r.M, r.Dir)
		var got []klevdb.Message
		var gotOffs []int64
		var size int64
		err := guard(func() error {
			var e error
			if op.A == 0 {
				got, size, e = klevdb.DeleteMulti(ctx, r.L, offsetSet(req), r.backoff(op.B))
			} else {
				var offs map[int64]struct{}
				offs, size, e = klevdb.DeleteMultiOffsets(ctx, r.L, offsetSet(req), r.backoff(op.B))
				gotOffs = sortedKeys(offs)
				if gotOffs == nil {
					gotOffs = []int64{}
				}
			}
			return e
		})
		kind := "DeleteMulti"
		if op.A != 0 {
			kind = "DeleteMultiOffsets"
		}
		r.applyDeleted(kind, req, fromKs(got), gotOffs, size, err)
		if err != nil && !r.stopped() {
			if interruptedByHarness(err) {
				return // interrupted by the harness: the partial report has been applied and checked
			}
			if len(req) > 0 && (req[0] < 0 || !r.M.IsLive(req[0])) && classify(err) != EOther {
				return
			}
			r.unexpected(kind, err)
		}
	case "trim_off", "trim_cnt", "trim_size", "trim_age", "cmp_upd", "cmp_del":
		r.execHelper(ctx, op)
	case "compact":
		// Compact(age): both compactions relative to the simulated clock, then GC(0)
		before := r.M.Clone()
		err := guard(func() error {
			return klevdb.Compact(ctx, r.L, time.Duration(op.A)*time.Microsecond, r.backoff(op.B))
		})
		r.logf("compact age=%dus err=%v", op.A, errStr(err))
		if err != nil && !interruptedByHarness(err) {
			r.unexpected("Compact", err)
			return
		}
		// Compact does not report what it removed: re-read the log to follow it
		live, _, serr := r.scan(7)
		if serr != "" {
			r.abort("scan after Compact: %s", serr)
			return
		}
		got := map[int64]bool{}
		for _, x := range live {
			got[x.Off] = true
		}
		var removed []int64
		for _, x := range before.Live {
			if !got[x.Off] {
				removed = append(removed, x.Off)
			}
		}
		r.M.Remove(boolSet(removed))
		if r.H.OnDelete != nil {
			r.Ctx["compact_age"] = op.A
			r.H.OnDelete(r, "Compact", nil, before, nil, removed, 0, nil)
		}
	case "gc":
		err := guard(func() error { return r.L.GC(time.Duration(op.A) * time.Microsecond) })
		r.logf("gc %dus err=%v", op.A, errStr(err))
		if err != nil {
			r.unexpected("GC", err)
		}
		r.probe("gc")
	case "clock":
		if r.P.Cfg.Monotone && op.A < 0 {
			return
		}
		sim.Advance(time.Duration(op.A) * time.Microsecond)
		sim.FireDue()
		r.logf("clock %+dus", op.A)
		if op.A < 0 {
			r.probe("clock_back")
		}
	case "sync":
		var ret int64
		err := guard(func() error {
			var e error
			ret, e = r.L.Sync()
			return e
		})
		r.logf("sync -> %d err=%v", ret, errStr(err))
		if err != nil {
			r.unexpected("Sync", err)
			return
		}
		if r.H.OnPublish != nil {
			// Sync returns NextOffset: checked by the offsets oracle through the same hook
			r.H.OnPublish(r, r.M.Next, nil, ret, nil)
		}
		r.Ctx["last_sync"] = ret
	case "reopen", "kill":
		r.reopen(op)
	default:
		if r.H.OnOp != nil && r.H.OnOp(r, op) {
			return
		}
		panic(infraErr{fmt.Errorf("unknown op kind %q", op.K)})
	}
}

// kill: the process dies between two calls, without Close. Its file descriptors and its
// directory lock go with it; what it has written stays (in the page cache at least, on
// stable storage as far as it was fsynced: the disk model goes by path and carries on).
// The handle is never touched again; the directory is replaced by a byte-identical copy
// (fresh inodes, no lock), outside the file-system tap.
func (r *Run) kill() {
	r.Dead = append(r.Dead, r.L)
	r.L = nil
	grave := filepath.Join(r.Base, fmt.Sprintf("dead%d", len(r.Dead)))
	if err := os.Rename(r.Dir, grave); err != nil {
		panic(infraErr{err})
	}
	if err := os.Mkdir(r.Dir, 0o755); err != nil {
		panic(infraErr{err})
	}
	ents, err := os.ReadDir(grave)
	if err != nil {
		panic(infraErr{err})
	}
	for _, e := range ents {
		b, err := os.ReadFile(filepath.Join(grave, e.Name()))
		if err != nil {
			panic(infraErr{err})
		}
		if err := os.WriteFile(filepath.Join(r.Dir, e.Name()), b, 0o600); err != nil {
			panic(infraErr{err})
		}
	}
	r.logf("kill")
	r.probe("process_kill")
}

// CloseDead closes the handles of killed processes (after the run, outside the simulation).
func (r *Run) CloseDead() {
	for _, l := range r.Dead {
		_ = guard(func() error { return l.Close() })
	}
	r.Dead = nil
}

func (r *Run) reopen(op *Op) {
	if op.K == "kill" && r.L != nil {
		r.kill()
	}
	if r.L != nil {
		if r.H.BeforeClose != nil {
			r.H.BeforeClose(r)
			if r.stopped() {
				return
			}
		}
		err := guard(func() error { return r.L.Close() })
		r.L = nil
		if err != nil {
			r.unexpected("Close", err)
			return
		}
		if fs := sim.FS; fs != nil {
			fs.CurSub = 1 // Close has returned
		}
		if r.H.AfterClose != nil {
			r.H.AfterClose(r)
			if r.stopped() {
				return
			}
		}
	}
	// index loss while closed
	if len(op.RmIdx) > 0 {
		files := indexFiles(r.Dir)
		rm := map[string]bool{}
		for _, p := range op.RmIdx {
			if p < 0 {
				for _, f := range files {
					rm[f] = true
				}
			} else if i := pickPermille(len(files), p); i >= 0 {
				rm[files[i]] = true
			}
		}
		for _, f := range files {
			if rm[f] {
				if err := simosRemove(f); err != nil {
					panic(infraErr{err})
				}
				r.probe("index_removed")
			}
		}
		r.logf("rmidx %d of %d", len(rm), len(files))
	}
	for _, tool := range op.Tools {
		o := klevdb.Options{KeyIndex: r.P.Cfg.Keys, TimeIndex: r.P.Cfg.Times}
		var err error
		switch tool {
		case "migrate1":
			err = guard(func() error { return klevdb.Migrate(r.Dir, o, klevdb.V1) })
		case "migrate2":
			err = guard(func() error { return klevdb.Migrate(r.Dir, o, klevdb.V2) })
		case "recover":
			err = guard(func() error { return klevdb.Recover(r.Dir, o) })
		case "check":
			err = guard(func() error { return klevdb.Check(r.Dir, o) })
		case "stat":
			// package-level Stat is exercised by the C13 oracle; here it is only a read
			continue
		}
		r.logf("tool %s err=%v", tool, errStr(err))
		r.probe("offline_" + tool)
		if err != nil {
			r.unexpected("offline-"+tool, err)
			return
		}
		if r.H.AfterTool != nil {
			r.H.AfterTool(r, tool)
			if r.stopped() {
				return
			}
		}
	}
	if op.Peek > 0 && r.H.AfterStep != nil {
		r.peekReadonly(op)
		if r.stopped() {
			return
		}
	}
	if err := r.open(*op.Open); err != nil {
		r.logf("reopen %+v err=%v", *op.Open, err)
		r.unexpected("Open(reopen)", err)
		return
	}
	r.logf("reopen %+v", *op.Open)
	r.probe("reopen")
	if r.H.OnReopened != nil {
		r.H.OnReopened(r, op)
	}
}

// peekReadonly: while the log is closed (index files possibly lost, offline tools done), a
// read-only handle is opened with the index options of the run and the property's per-step
// oracle runs against it: a read-only handle answers like a read-write one. Its first call
// is Stat (Peek 1) or a scan (Peek 2), whatever the oracle starts with otherwise.
func (r *Run) peekReadonly(op *Op) {
	o := OpenOpts{Rollover: op.Open.Rollover, Readonly: true, NewV: op.Open.NewV, Keep: op.Open.Keep}
	if err := r.open(o); err != nil {
		r.logf("peek read-only err=%v", err)
		r.unexpected("Open(read-only)", err)
		return
	}
	r.logf("peek read-only %d", op.Peek)
	r.probe("readonly_peek")
	switch op.Peek {
	case 1:
		var st klevdb.Stats
		err := guard(func() error {
			var e error
			st, e = r.L.Stat()
			return e
		})
		if err != nil {
			r.violate("Stat(read-only)|error|"+errKind(err), "first call of a read-only handle: Stat failed: %v", err)
		} else if st.Messages != len(r.M.Live) {
			r.violate("Stat(read-only)|messages", "first call of a read-only handle: Stat counts %d messages, live %d", st.Messages, len(r.M.Live))
		}
	case 2:
		got, _, diag := r.scan(int64(1 + r.Obs.Intn(9)))
		if diag != "" {
			r.violate("scan(read-only)|error|"+scanDiagKind(diag), "first calls of a read-only handle: %s", diag)
		} else if d := diffLive(got, r.M.Live); d != "" {
			r.violate("scan(read-only)|"+diffKind(d), "read-only handle: %s", d)
		}
	}
	if !r.stopped() {
		r.H.AfterStep(r, op)
	}
	l := r.L
	r.L = nil
	if err := guard(func() error { return l.Close() }); err != nil && !r.stopped() {
		r.unexpected("Close(read-only)", err)
	}
}

// scan reads the whole log with a Consume cursor from OffsetOldest. It returns the messages,
// the final next offset and a diagnostic ("" = fine).
func (r *Run) scan(maxCount int64) ([]Msg, int64, string) {
	return scanLog(r.L, maxCount, int(r.M.Next)+len(r.M.Live)+8)
}

func scanLog(l klevdb.Log, maxCount int64, maxCalls int) ([]Msg, int64, string) {
	var out []Msg
	off := klevdb.OffsetOldest
	for calls := 0; ; calls++ {
		if calls > maxCalls {
			return out, off, fmt.Sprintf("cursor did not terminate within %d calls", maxCalls)
		}
		var next int64
		var msgs []klevdb.Message
		err := guard(func() error {
			var e error
			next, msgs, e = l.Consume(off, maxCount)
			return e
		})
		if err != nil {
			return out, off, fmt.Sprintf("Consume(%d,%d): %v", off, maxCount, err)
		}
		out = append(out, fromKs(msgs)...)
		if len(msgs) == 0 {
			if off >= 0 && next == off {
				return out, next, ""
			}
			if off < 0 {
				// relative start on an empty prefix: continue from what it returned
				if next < 0 {
					return out, next, fmt.Sprintf("Consume(%d) returned next=%d", off, next)
				}
				if calls > 0 {
					return out, next, ""
				}
				// one more call at the absolute position decides whether we are caught up
			} else if next < off {
				return out, next, fmt.Sprintf("Consume(%d) moved backwards to %d", off, next)
			}
		}
		off = next
	}
}

// diffLive compares a scan with the model; "" = equal.
func diffLive(got, want []Msg) string {
	for i := 0; i < len(got) && i < len(want); i++ {
		if !sameMsg(got[i], want[i]) {
			if got[i].Off == want[i].Off {
				return fmt.Sprintf("message at offset %d altered: got %v want %v", got[i].Off, got[i], want[i])
			}
			if got[i].Off < want[i].Off {
				return fmt.Sprintf("unexpected message %v (model has %v next)", got[i], want[i])
			}
			return fmt.Sprintf("missing message %v (scan shows %v instead)", want[i], got[i])
		}
	}
	if len(got) < len(want) {
		return fmt.Sprintf("missing message %v (scan ended after %d of %d)", want[len(got)], len(got), len(want))
	}
	if len(got) > len(want) {
		return fmt.Sprintf("unexpected message %v beyond the %d live ones", got[len(want)], len(want))
	}
	return ""
}

func diffKind(d string) string {
	switch {
	case strings.HasPrefix(d, "missing"):
		return "missing"
	case strings.HasPrefix(d, "unexpected"):
		return "invented"
	case strings.Contains(d, "altered"):
		return "altered"
	}
	return "other"
}
