// Package simtime replaces package time in the instrumented copy: the clock and every timer
// are the simulator's; types and pure functions are aliases of package time's.
package simtime

import (
	stdtime "time"

	"github.com/klev-dev/klevdb/verifsim/sim"
)

func Now() Time {
	if !sim.Active() {
		return stdtime.Now()
	}
	// local zone, like time.Now(); no monotonic reading
	return sim.Now()
}

func Since(t Time) Duration {
	if !sim.Active() {
		return stdtime.Since(t)
	}
	return sim.Now().Sub(t)
}

func Until(t Time) Duration {
	if !sim.Active() {
		return stdtime.Until(t)
	}
	return t.Sub(sim.Now())
}

func Sleep(d Duration) {
	if !sim.Active() {
		stdtime.Sleep(d)
		return
	}
	sim.Yield()
	ch := afterChan(d)
	for {
		select {
		case <-ch:
			sim.Progress()
			return
		default:
			sim.Blocked()
		}
	}
}

// afterChan returns a 1-buffered channel that receives the simulated time when it is due.
// Receivers in instrumented code poll it through simchan; Sleep above is only reached from
// harness code or un-rewritten expressions, where a plain receive would block for real, so
// it polls by hand.
func afterChan(d Duration) <-chan Time {
	ch := make(chan Time, 1)
	sim.AddTimer(d, func() {
		select {
		case ch <- sim.Now():
		default:
		}
	})
	return pollable(ch)
}

func pollable(ch chan Time) <-chan Time { return ch }

func After(d Duration) <-chan Time {
	if !sim.Active() {
		return stdtime.After(d)
	}
	sim.Yield()
	return afterChan(d)
}

func Tick(d Duration) <-chan Time {
	if !sim.Active() {
		return stdtime.Tick(d)
	}
	return NewTicker(d).C
}

type Timer struct {
	C    <-chan Time
	real *stdtime.Timer
	h    sim.TimerHandle
	ch   chan Time
	f    func()
}

func NewTimer(d Duration) *Timer {
	if !sim.Active() {
		r := stdtime.NewTimer(d)
		return &Timer{C: r.C, real: r}
	}
	sim.Yield()
	t := &Timer{ch: make(chan Time, 1)}
	t.C = t.ch
	t.arm(d)
	return t
}

func AfterFunc(d Duration, f func()) *Timer {
	if !sim.Active() {
		return &Timer{real: stdtime.AfterFunc(d, f)}
	}
	sim.Yield()
	t := &Timer{f: f}
	t.arm(d)
	return t
}

func (t *Timer) arm(d Duration) {
	t.h = sim.AddTimer(d, func() {
		if t.f != nil {
			// AfterFunc callbacks run on the task that advances the clock
			t.f()
			return
		}
		select {
		case t.ch <- sim.Now():
		default:
		}
	})
}

func (t *Timer) Stop() bool {
	if t.real != nil {
		return t.real.Stop()
	}
	sim.Yield()
	return t.h.Stop()
}

func (t *Timer) Reset(d Duration) bool {
	if t.real != nil {
		return t.real.Reset(d)
	}
	sim.Yield()
	was := t.h.Stop()
	t.arm(d)
	return was
}

type Ticker struct {
	C      <-chan Time
	real   *stdtime.Ticker
	ch     chan Time
	d      Duration
	h      sim.TimerHandle
	closed bool
}

func NewTicker(d Duration) *Ticker {
	if !sim.Active() {
		r := stdtime.NewTicker(d)
		return &Ticker{C: r.C, real: r}
	}
	if d <= 0 {
		panic("non-positive interval for NewTicker")
	}
	t := &Ticker{ch: make(chan Time, 1), d: d}
	t.C = t.ch
	t.arm()
	return t
}

func (t *Ticker) arm() {
	t.h = sim.AddTimer(t.d, func() {
		select {
		case t.ch <- sim.Now():
		default:
		}
		if !t.closed {
			t.arm()
		}
	})
}

func (t *Ticker) Stop() {
	if t.real != nil {
		t.real.Stop()
		return
	}
	t.closed = true
	t.h.Stop()
}

func (t *Ticker) Reset(d Duration) {
	if t.real != nil {
		t.real.Reset(d)
		return
	}
	t.h.Stop()
	t.d = d
	t.arm()
}
