#!/usr/bin/env python3
"""Regenerates /verif/MANIFEST.json from the table below (kept next to the checks it describes)."""
import json
props = {
 "C01": ("H", "exploration", "5/C01"), "C02": ("H", "exploration", "5/C02"), "C03": ("H", "exploration", "5/C03"),
 "C04": ("H", "exploration", "5/C04"), "C05": ("K", "fault_enumeration", "5/C05"), "C06": ("K", "fault_enumeration", "5/C06"),
 "C07": ("D", "fault_enumeration", "5/C07"), "C08": ("S", "exploration", "5/C08"), "C09": ("H", "exploration", "5/C09"),
 "C10": ("H", "exploration", "5/C10"), "C11": ("H", "exploration", "5/C11"), "C12": ("H", "exploration", "5/C12"),
 "C13": ("H", "exploration", "5/C13"), "C14": ("D", "fault_enumeration", "5/C14"), "C15": ("H", "exploration", "5/C15"),
 "C16": ("H", "exploration", "5/C16"), "C17": ("H", "exploration", "5/C17"), "C18": ("S", "exploration", "5/C18"),
 "C19": ("H", "exploration", "5/C19"), "C20": ("H", "exploration", "5/C20"),
}
text = {
 "C01": "Seeded search over API histories (publish/delete/trim/compact/GC/sync/reopen with re-drawn options, index loss, offline tools, clock jumps) on the real code; after every call a full cursor scan must equal the reference model exactly; one run in eight goes through the typed facade (TLog), a fifth of the reopens first look through a read-only handle. Sampling, not proof: the right level for a property quantified over unbounded histories.",
 "C02": "Seeded search biased to tail deletes, emptying, empty batches and reopen chains; every Publish/Sync/NextOffset result and every visible offset is compared with the model's never-decreasing next offset.",
 "C03": "Seeded search over hole patterns; Consume is evaluated for every offset in [-5, next+2] x maxCount set (plus maxCount MaxInt64 / 2^40 / MaxInt32 and offsets far beyond NextOffset) against a predicate derived from the model, plus a full cursor walk.",
 "C04": "Seeded search over hole patterns; Get for every offset in [0, next+2], offsets far beyond NextOffset and both relative offsets is classified against the model and compared with Consume.",
 "C05": "Seeded workloads recorded at the file-system seam; every mutation of the recorded trace is a crash point (prefix images), appends are additionally torn, and recovery itself is cut again (depth 2); each image must reopen with Recover to an allowed state with agreeing views. Workloads include process kills without Close followed by a new Open. Enumeration of fault points within sampled workloads.",
 "C06": "Same recorded workloads; at every crash point power-loss images cut each file back to a length between its fsynced and current length; everything below the acknowledged Sync watermark must survive Recover, also when a Sync or Close follows the death (without Close) of an earlier incarnation that left unsynced data. A quarter of the runs are concurrent (publisher and Sync tasks under the serialized scheduler with the FS tap on): the watermark at a file-system step is the largest offset a Sync / AutoSync Publish had returned before the next step.",
 "C07": "Head segments built through the real API are damaged (every truncation length, byte damage at every position, garbage tails, index damage, log and index both torn); Recover/Check results (also Recover combined with Check, and with an eager migration to the other format version) are compared with the reference codec's longest-valid-prefix.",
 "C08": "Serialized deterministic scheduler over real goroutines (yield at every lock/atomic/channel/FS operation; random, PCT, hold and sequential strategies; goroutines started by the code under test become tasks too); plans include lazily loaded segments with lost index files and unload/reload (GC) stress; race detector under a race-transparent hand-off, porcupine linearizability against the reference model, no spurious failure, no deadlock/livelock.",
 "C09": "Seeded search with nil/empty/real FNV-1a-64 colliding keys; key lookups and key cursors for all keys of the set plus absent keys compared with the model after every call.",
 "C10": "Seeded search over never-decreasing-time histories with equal stamps across rollovers; time lookups at every distinguishing query time compared with the model after every call.",
 "C11": "At every Close each index file is compared with the index derived by the reference codec; observation before Close is compared with observation after reopening copies with index subsets removed, read-write and read-only.",
 "C12": "Every Delete/DeleteMulti call in seeded histories (index files lost between sessions, multi helpers interrupted by a failing backoff) is checked against its contract (subset, content, exact storage size, only those gone, progress, idempotence).",
 "C13": "Everything the simulated disk holds after each call is strictly re-decoded by an independent reference codec and read back through the real decoders (file reader and mmap reader); foreign segments written by the reference encoder are served by the real code; Size/Stat compared with the directory; times over the whole int64 range (also before 1970), values up to the 64 MiB limit.",
 "C14": "Multi-segment V2 logs are damaged in one log file (bit flips, 1-8 byte overwrites incl. the file header, boundary values in the length fields of records, truncations, zero tails); every read call is classified must-error / must-equal / may-do-either / never-wrong, under recover() and an allocation meter.",
 "C15": "Find*/Trim* calls in seeded histories on multi-segment logs with holes are checked: prefix-only selection, bound established by the Multi variants, minimality for the size estimate.",
 "C16": "Compaction calls in seeded histories over few keys with tombstones: the key->latest-value map must be unchanged and each removed message must satisfy its removal rule.",
 "C17": "Seeded histories re-drawing version options at every reopen and running offline Migrate (twice): content and observation unchanged, version byte of every segment as requested.",
 "C18": "Serialized deterministic scheduler over waiters, publishers and a controller (cancel with and without a cause, Close at chosen yields or at quiescence, late waits just below NextOffset), yields inside the notifier; no lost or spurious wake-up, result equals Consume at an instant, error cases.",
 "C19": "Seeded sequences of up to three handles on one directory (writer and reader sessions, conflicting Opens, Opens that fail for other reasons with and without Check and through OpenBlocking, index loss, one and two read-only handles on a directory without segments with read-write attempts in between, GC on read-only handles, read-only sessions on a damaged newest log and on what a crashed delete leaves behind); lock state machine oracle, read-only battery vs model and vs writer, *.log bytes unchanged.",
 "C20": "Seeded histories with Log.Backup (through the read-write handle, or through a read-only handle as its first call with index files lost) / package-level Backup into empty directories and repeated across publish-only gaps; Check(target), log files equal, index files equal or implied by their log, observation equality source vs opened backup, source unchanged.",
}
tech = {
 "H": "deterministic simulation: seeded history search against an executable reference model",
 "K": "deterministic simulation with fault injection: crash / torn-write / power-loss images enumerated from the recorded file-system trace",
 "D": "deterministic simulation with fault injection: enumerated stored-byte damage against a reference codec",
 "S": "deterministic simulation: serialized seeded scheduler (random/PCT/hold) with race detector and porcupine linearizability check",
}
import sys
built = sys.argv[1].split(",") if len(sys.argv) > 1 else sorted(props)
checks, na = [], []
for pid in sorted(props):
    eng, level, ref = props[pid]
    if pid not in built:
        na.append({"property_id": pid, "reason": "check under construction in this session (engine %s of DESIGN.md); not claimed until it runs clean on the unchanged tree" % eng})
        continue
    checks.append({
        "property_id": pid,
        "quick_cmd": "bin/check %s --tier quick" % pid,
        "thorough_cmd": "bin/check %s --tier thorough" % pid,
        "evidence_file": "/verif/evidence/%s.json" % pid,
        "replay_cmd_template": "bin/check %s --replay {path}" % pid,
        "engine": "vsim-" + eng,
        "level_claimed": {"category": level, "text": text[pid], "design_ref": "DESIGN.md section " + ref},
        "level_note": "Trusted base: the simulator (shims, scheduler, disk model), the reference model and reference codec in /verif; the Go toolchain and race detector; files on tmpfs. Assumes the instrumented scratch copy behaves like the shipped code (the repository's own tests pass against it).",
        "technique": tech[eng],
    })
m = {
 "version": 1,
 "setup_cmd": "bin/setup.sh",
 "hooks": {
   "guard": "none",
   "enable": "no hooks are committed to /repo: every check rsyncs the working tree to a scratch directory and instruments the copy (bin/prep.sh: import re-pointing to shims + channel rewrite), so the shipped code is unchanged",
   "baseline_off_cmd": "cd /repo && go test -vet=off -count=1 ./...",
   "source_commits": [],
   "add_only": True,
 },
 "engines": [
   {"name": "vsim-H", "path": "harness/harness", "serves_properties": [p for p in sorted(props) if props[p][0] == "H"], "kind_free_text": "history engine: seeded op sequences vs reference model"},
   {"name": "vsim-K", "path": "harness/harness", "serves_properties": ["C05", "C06"], "kind_free_text": "crash engine: images from the recorded FS trace"},
   {"name": "vsim-D", "path": "harness/harness", "serves_properties": ["C07", "C14"], "kind_free_text": "damage engine: stored-byte faults vs reference codec"},
   {"name": "vsim-S", "path": "harness/harness", "serves_properties": ["C08", "C18"], "kind_free_text": "schedule engine: serialized scheduler, race detector, porcupine"},
 ],
 "checks": checks,
 "notes": "Every check: bin/check <ID> [--tier quick|thorough] [--replay file]; env VERIF_SEED, VERIF_BUDGET_S, VERIF_REPO. Exit 0 held / 1 VIOLATION / 2 infrastructure. Genuine defects repaired in /repo as fix: commits are recorded in KNOWN_FINDINGS.txt (fixed: lines).",
 "not_applicable": na,
}
json.dump(m, open("/verif/MANIFEST.json", "w"), indent=1)
print("checks:", len(checks), "not claimed:", len(na))
