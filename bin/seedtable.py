#!/usr/bin/env python3
"""Regenerates the table of seeded changes in DESIGN.md (section 11.3 (a)) from seeded/*/meta.json."""
import json, glob, re
rows = []
for d in sorted(glob.glob('/verif/seeded/S*'), key=lambda d: int(re.match(r'.*/S(\d+)-', d).group(1))):
    m = json.load(open(d + '/meta.json'))
    det = [k for k, v in m['results'].items() if 'DETECTED' in v]
    mis = [k for k in m['results'] if k not in det]
    rows.append((m['id'], m['property'], m['defect'], det, mis, m['results']))
tgt_first = sum(1 for r in rows if r[1] in r[3] and not any(w in r[5][r[1]] for w in ('at first', 'first run')))
tgt_now = sum(1 for r in rows if r[1] in r[3])
anyc = sum(1 for r in rows if r[3])
out = ["**(a) %d changes seeded by independent sub-agents** (ten waves; each agent saw only the text of one" % len(rows),
 "property and a scratch worktree, nothing of /verif; the third wave was asked for the subtlest defects it",
 "could find, needing three or more conditions at once). Each change compiles, passes the repository's",
 "suite, comes with a demonstration that fails with it and passes without it; all were re-confirmed in",
 "fresh worktrees (`seeded/confirm.sh`) before being kept under `seeded/<id>/` (patch.diff, demo, README.md,",
 "meta.json); the instructions the agents got are in `seeded/INSTRUCTIONS-*.md` (first and last wave).",
 "%d are caught by at least one check, %d by the check of the property they were seeded for (%d of those" % (anyc, tgt_now, tgt_first),
 "at the first attempt, the rest after the check was strengthened as described in the last column).", "",
 "| id | seeded for | change | caught by | notes |", "|---|---|---|---|---|"]
for i, p, defect, det, mis, res in rows:
    notes = []
    for k in res:
        v = res[k]
        if k in det and ('at first' in v or 'first run' in v):
            notes.append('%s: %s' % (k, v.split('DETECTED')[0].strip().rstrip(';')))
        elif k not in det:
            notes.append('%s: %s' % (k, v))
    n = '; '.join(notes) or '-'
    out.append("| %s | %s | %s | %s | %s |" % (i.split('-')[0], p, defect.replace('|', '\\|'), ', '.join(det) or '-', n.replace('|', '\\|')))
text = '\n'.join(out) + '\n'
s = open('/verif/DESIGN.md').read()
a = s.index('**(a) ')
b = s.index('39 of 40 are caught') if '39 of 40 are caught' in s else s.index('<!-- end seeded table -->')
s = s[:a] + text + '\n<!-- end seeded table -->\n\n' + s[b:] if '39 of 40 are caught' in s else s[:a] + text + '\n' + s[b:]
open('/verif/DESIGN.md', 'w').write(s)
print(len(rows), anyc, tgt_now, tgt_first)
