package harness

import (
	"encoding/json"
	"os"
	"path/filepath"
	"sort"
	"strconv"
	"strings"
)

// A Plan is everything one simulated run depends on besides the source tree: the run
// configuration and the operation list with concrete arguments or selectors. A replay file
// is a Plan plus the violation it is expected to reproduce.
type Plan struct {
	Prop   string  `json:"prop"`
	Engine string  `json:"engine"`
	Tier   string  `json:"tier"`
	Seed   uint64  `json:"seed"` // per-run seed
	Run    int64   `json:"run"`
	Cfg    RunCfg  `json:"cfg"`
	Ops    []Op    `json:"ops"`
	Fault  *Fault  `json:"fault,omitempty"`  // engines K, D: a specific fault to replay
	Sched  *SchedP `json:"sched,omitempty"`  // engine S
	Tasks  [][]Op  `json:"tasks,omitempty"`  // engine S: per-task scripts
	Expect *Expect `json:"expect,omitempty"` // replay files: the violation to reproduce
}

type Expect struct {
	Sig string `json:"sig"`
	Msg string `json:"msg"`
}

type RunCfg struct {
	Keys     bool     `json:"keys"`
	Times    bool     `json:"times"`
	Monotone bool     `json:"monotone"` // the generator keeps times non-decreasing
	Open     OpenOpts `json:"open"`
	KeySet   [][]byte `json:"keyset,omitempty"`
	ObsSeed  uint64   `json:"obs_seed"`
	Every    int      `json:"every,omitempty"` // evaluate heavy oracles every n-th step
	Profile  string   `json:"profile"`
	StartUS  int64    `json:"start_us"`
	Strict   bool     `json:"strict,omitempty"`
	Typed    bool     `json:"typed,omitempty"` // the log is driven through the typed facade (TLog[string,string])
}

type OpenOpts struct {
	Rollover int64 `json:"ro"`
	Check    bool  `json:"check,omitempty"`
	Recover  bool  `json:"recover,omitempty"`
	AutoSync bool  `json:"autosync,omitempty"`
	Readonly bool  `json:"readonly,omitempty"`
	NewV     int   `json:"newv,omitempty"` // 0 = unset (V2), 1, 2
	Keep     bool  `json:"keep,omitempty"`
	Eager    bool  `json:"eager,omitempty"`
}

type PMsg struct {
	Key   []byte `json:"k"`
	Val   []byte `json:"v"`
	TMode int    `json:"tm"` // 0: max ever published + TV (TV >= 0); 1: absolute TV; 2: zero time (= now)
	TV    int64  `json:"tv"`
	Junk  int64  `json:"junk,omitempty"` // garbage the caller puts into Message.Offset
	Pad   int64  `json:"pad,omitempty"`  // the value is Val followed by Pad zero bytes (messages beyond the 64 MiB the writers accept)
	KPad  int64  `json:"kpad,omitempty"` // the key is Key followed by KPad zero bytes
}

type OffSel struct {
	Kind string   `json:"kind"`
	A    int64    `json:"a,omitempty"`
	B    int64    `json:"b,omitempty"`
	Abs  []int64  `json:"abs,omitempty"`
	Sub  []OffSel `json:"sub,omitempty"`
}

type TimeSel struct {
	Kind string `json:"kind"` // "abs", "live" (time of live[P permille] + D), "now" (clock + D), "max" (max ever + D), "min"
	P    int64  `json:"p,omitempty"`
	D    int64  `json:"d,omitempty"`
	Abs  int64  `json:"abs,omitempty"`
}

type Op struct {
	K     string    `json:"k"`
	Msgs  []PMsg    `json:"msgs,omitempty"`
	Sel   *OffSel   `json:"sel,omitempty"`
	T     *TimeSel  `json:"t,omitempty"`
	A     int64     `json:"a,omitempty"`
	B     int64     `json:"b,omitempty"`
	C     int64     `json:"c,omitempty"`
	Open  *OpenOpts `json:"open,omitempty"`
	RmIdx []int64   `json:"rmidx,omitempty"` // permille picks into the sorted index-file list; -1 = all
	Tools []string  `json:"tools,omitempty"`
	Key   []byte    `json:"key,omitempty"`
	H     int       `json:"h,omitempty"`
	Peek  int       `json:"peek,omitempty"` // reopen: a read-only session first (1: its first call is Stat, 2: a scan)
}

func (p *Plan) JSON() []byte {
	b, _ := json.Marshal(p)
	return b
}

func (p *Plan) Clone() *Plan {
	var q Plan
	_ = json.Unmarshal(p.JSON(), &q)
	return &q
}

func LoadPlan(path string) (*Plan, error) {
	b, err := os.ReadFile(path)
	if err != nil {
		return nil, err
	}
	var p Plan
	if err := json.Unmarshal(b, &p); err != nil {
		return nil, err
	}
	return &p, nil
}

// ---- selector resolution (against the reference model, at execution time) ----

func pickPermille(n int, p int64) int {
	if n == 0 {
		return -1
	}
	if p < 0 {
		p = 0
	}
	i := int(p * int64(n) / 1000)
	if i >= n {
		i = n - 1
	}
	return i
}

// segmentBases lists the base offsets of the *.log files in dir, ascending. It is a hint for
// selectors ("the whole head segment") and never used as an oracle.
func segmentBases(dir string) []int64 {
	ents, err := os.ReadDir(dir)
	if err != nil {
		return nil
	}
	var out []int64
	for _, e := range ents {
		if s, ok := strings.CutSuffix(e.Name(), ".log"); ok {
			if v, err := strconv.ParseInt(s, 10, 64); err == nil {
				out = append(out, v)
			}
		}
	}
	sort.Slice(out, func(i, j int) bool { return out[i] < out[j] })
	return out
}

func (s *OffSel) Resolve(m *Model, dir string) []int64 {
	set := map[int64]bool{}
	s.resolveInto(m, dir, set)
	out := make([]int64, 0, len(set))
	for o := range set {
		out = append(out, o)
	}
	sort.Slice(out, func(i, j int) bool { return out[i] < out[j] })
	return out
}

func (s *OffSel) resolveInto(m *Model, dir string, set map[int64]bool) {
	live := m.Live
	switch s.Kind {
	case "abs", "rel":
		for _, o := range s.Abs {
			set[o] = true
		}
	case "live":
		for _, p := range s.Abs {
			if i := pickPermille(len(live), p); i >= 0 {
				set[live[i].Off] = true
			}
		}
	case "first":
		for i := 0; i < len(live) && int64(i) < s.A; i++ {
			set[live[i].Off] = true
		}
	case "last":
		for i := len(live) - 1; i >= 0 && int64(len(live)-1-i) < s.A; i-- {
			set[live[i].Off] = true
		}
	case "all":
		for _, x := range live {
			set[x.Off] = true
		}
	case "range":
		a, b := pickPermille(len(live), s.A), pickPermille(len(live), s.B)
		if a > b {
			a, b = b, a
		}
		for i := a; i >= 0 && i <= b; i++ {
			set[live[i].Off] = true
		}
	case "seg":
		bases := segmentBases(dir)
		if len(bases) == 0 {
			return
		}
		k := len(bases) - 1 - int(s.A)
		if k < 0 {
			k = 0
		}
		lo := bases[k]
		hi := int64(1 << 62)
		if k+1 < len(bases) {
			hi = bases[k+1]
		}
		var in []int64
		for _, x := range live {
			if x.Off >= lo && x.Off < hi {
				in = append(in, x.Off)
			}
		}
		switch s.B {
		case 1:
			if len(in) > 0 {
				in = in[1:]
			}
		case 2:
			if len(in) > 0 {
				in = in[:len(in)-1]
			}
		case 3:
			if len(in) > 0 {
				in = in[:1]
			}
		case 4:
			if len(in) > 0 {
				in = in[len(in)-1:]
			}
		}
		for _, o := range in {
			set[o] = true
		}
	case "dead":
		var dead []int64
		li := 0
		for o := int64(0); o < m.Next; o++ {
			for li < len(live) && live[li].Off < o {
				li++
			}
			if li < len(live) && live[li].Off == o {
				continue
			}
			dead = append(dead, o)
		}
		for _, p := range s.Abs {
			if i := pickPermille(len(dead), p); i >= 0 {
				set[dead[i]] = true
			}
		}
	case "future":
		set[m.Next+s.A] = true
	case "mix":
		for i := range s.Sub {
			s.Sub[i].resolveInto(m, dir, set)
		}
	}
}

func (t *TimeSel) Resolve(m *Model, nowUS int64) int64 {
	switch t.Kind {
	case "abs":
		return t.Abs
	case "live":
		if i := pickPermille(len(m.Live), t.P); i >= 0 {
			return m.Live[i].US + t.D
		}
		return nowUS + t.D
	case "now":
		return nowUS + t.D
	case "max":
		return m.MaxUS + t.D
	case "min":
		if len(m.Live) > 0 {
			return m.Live[0].US + t.D
		}
		return nowUS + t.D
	}
	return t.Abs
}

func indexFiles(dir string) []string {
	ents, _ := os.ReadDir(dir)
	var out []string
	for _, e := range ents {
		if strings.HasSuffix(e.Name(), ".index") {
			out = append(out, filepath.Join(dir, e.Name()))
		}
	}
	sort.Strings(out)
	return out
}
