// Package refcodec is an independent encoder/decoder of klevdb's on-disk layout
// (DESIGN.md 3.7). It shares no code with pkg/message or pkg/index.
//
//	log V2   = header FF 'k' 'l' 'e' 'v' 's' 01 00, then records
//	           crc32c(4) off(8) µs(8) klen(4) vlen(4) key val DEADBEEFFEEDFACE
//	           (big endian, CRC-32C over everything after the CRC field)
//	log V1   = no file header, records off(8) µs(8) klen(4) vlen(4) crc32c(4) key val
//	           (CRC over key‖val only); a 0-byte file is an empty V1 log
//	index V2 = header FF 'k' 'l' 'e' 'v' 'i' 01 flags (bit0 times, bit1 keys), then items
//	           off(8) pos(8) [ts(8)] [fnv1a64(key)(8)]
//	index V1 = items only
package refcodec

import (
	"encoding/binary"
	"errors"
	"fmt"
	"hash/crc32"
)

const (
	V1 = 1
	V2 = 2
)

const (
	LogHeaderLen   = 8
	IndexHeaderLen = 8
	maxBody        = 64 << 20
)

var castagnoli = crc32.MakeTable(crc32.Castagnoli)

var trailer = []byte{0xDE, 0xAD, 0xBE, 0xEF, 0xFE, 0xED, 0xFA, 0xCE}

type Rec struct {
	Off  int64
	US   int64
	Key  []byte
	Val  []byte
	Pos  int64 // byte position of the record in its file
	Size int64 // bytes of the record in its file
}

type Item struct {
	Off  int64
	Pos  int64
	TS   int64
	Hash uint64
}

func LogHeader(v int) []byte {
	if v == V2 {
		return []byte{0xFF, 'k', 'l', 'e', 'v', 's', 1, 0}
	}
	return nil
}

func RecordSize(v int, klen, vlen int) int64 {
	if v == V2 {
		return int64(36 + klen + vlen)
	}
	return int64(28 + klen + vlen)
}

func EncodeRecord(v int, off, us int64, key, val []byte) []byte {
	if v == V2 {
		b := make([]byte, 36+len(key)+len(val))
		binary.BigEndian.PutUint64(b[4:], uint64(off))
		binary.BigEndian.PutUint64(b[12:], uint64(us))
		binary.BigEndian.PutUint32(b[20:], uint32(len(key)))
		binary.BigEndian.PutUint32(b[24:], uint32(len(val)))
		copy(b[28:], key)
		copy(b[28+len(key):], val)
		copy(b[28+len(key)+len(val):], trailer)
		binary.BigEndian.PutUint32(b[0:], crc32.Checksum(b[4:], castagnoli))
		return b
	}
	b := make([]byte, 28+len(key)+len(val))
	binary.BigEndian.PutUint64(b[0:], uint64(off))
	binary.BigEndian.PutUint64(b[8:], uint64(us))
	binary.BigEndian.PutUint32(b[16:], uint32(len(key)))
	binary.BigEndian.PutUint32(b[20:], uint32(len(val)))
	copy(b[28:], key)
	copy(b[28+len(key):], val)
	binary.BigEndian.PutUint32(b[24:], crc32.Checksum(b[28:], castagnoli))
	return b
}

var ErrHeader = errors.New("refcodec: bad file header")

// LogVersion detects the version of a log file from its first bytes. A 0-byte file is V1.
// A file shorter than 8 bytes but not empty has no readable header.
func LogVersion(data []byte, base int64) (int, error) {
	if len(data) == 0 {
		return V1, nil
	}
	if len(data) < 8 {
		return 0, ErrHeader
	}
	if data[0] == 0xFF && string(data[1:6]) == "klevs" {
		if data[6] == 1 && data[7] == 0 {
			return V2, nil
		}
		return 0, ErrHeader
	}
	if int64(binary.BigEndian.Uint64(data)) == base {
		return V1, nil
	}
	return 0, ErrHeader
}

// DecodeLog returns the longest prefix of valid records of a log file: the records, the
// number of bytes they (and the file header) occupy, and whether that is the whole file.
func DecodeLog(data []byte, base int64) (v int, recs []Rec, validLen int64, clean bool, err error) {
	v, err = LogVersion(data, base)
	if err != nil {
		return 0, nil, 0, false, err
	}
	pos := int64(0)
	if v == V2 {
		pos = LogHeaderLen
	}
	for pos < int64(len(data)) {
		r, n, ok := decodeRecord(v, data, pos)
		if !ok {
			return v, recs, pos, false, nil
		}
		r.Pos = pos
		r.Size = n
		recs = append(recs, r)
		pos += n
	}
	return v, recs, pos, true, nil
}

func decodeRecord(v int, data []byte, pos int64) (Rec, int64, bool) {
	rest := data[pos:]
	if len(rest) < 28 {
		return Rec{}, 0, false
	}
	var r Rec
	var klen, vlen int32
	if v == V2 {
		crc := binary.BigEndian.Uint32(rest[0:])
		r.Off = int64(binary.BigEndian.Uint64(rest[4:]))
		r.US = int64(binary.BigEndian.Uint64(rest[12:]))
		klen = int32(binary.BigEndian.Uint32(rest[20:]))
		vlen = int32(binary.BigEndian.Uint32(rest[24:]))
		if klen < 0 || vlen < 0 || int(klen)+int(vlen) > maxBody {
			return Rec{}, 0, false
		}
		n := 36 + int(klen) + int(vlen)
		if len(rest) < n {
			return Rec{}, 0, false
		}
		if crc32.Checksum(rest[4:n], castagnoli) != crc {
			return Rec{}, 0, false
		}
		if string(rest[n-8:n]) != string(trailer) {
			return Rec{}, 0, false
		}
		r.Key = clone(rest[28 : 28+int(klen)])
		r.Val = clone(rest[28+int(klen) : 28+int(klen)+int(vlen)])
		return r, int64(n), true
	}
	r.Off = int64(binary.BigEndian.Uint64(rest[0:]))
	r.US = int64(binary.BigEndian.Uint64(rest[8:]))
	klen = int32(binary.BigEndian.Uint32(rest[16:]))
	vlen = int32(binary.BigEndian.Uint32(rest[20:]))
	crc := binary.BigEndian.Uint32(rest[24:])
	if klen < 0 || vlen < 0 || int(klen)+int(vlen) > maxBody {
		return Rec{}, 0, false
	}
	n := 28 + int(klen) + int(vlen)
	if len(rest) < n {
		return Rec{}, 0, false
	}
	if crc32.Checksum(rest[28:n], castagnoli) != crc {
		return Rec{}, 0, false
	}
	r.Key = clone(rest[28 : 28+int(klen)])
	r.Val = clone(rest[28+int(klen) : n])
	return r, int64(n), true
}

func clone(b []byte) []byte {
	if len(b) == 0 {
		return nil
	}
	return append([]byte(nil), b...)
}

func ItemSize(times, keys bool) int64 {
	n := int64(16)
	if times {
		n += 8
	}
	if keys {
		n += 8
	}
	return n
}

func FNV1a64(key []byte) uint64 {
	h := uint64(14695981039346656037)
	for _, c := range key {
		h ^= uint64(c)
		h *= 1099511628211
	}
	return h
}

func IndexHeader(v int, times, keys bool) []byte {
	if v != V2 {
		return nil
	}
	var fl byte
	if times {
		fl |= 1
	}
	if keys {
		fl |= 2
	}
	return []byte{0xFF, 'k', 'l', 'e', 'v', 'i', 1, fl}
}

func EncodeIndex(v int, times, keys bool, items []Item) []byte {
	out := append([]byte(nil), IndexHeader(v, times, keys)...)
	for _, it := range items {
		out = binary.BigEndian.AppendUint64(out, uint64(it.Off))
		out = binary.BigEndian.AppendUint64(out, uint64(it.Pos))
		if times {
			out = binary.BigEndian.AppendUint64(out, uint64(it.TS))
		}
		if keys {
			out = binary.BigEndian.AppendUint64(out, it.Hash)
		}
	}
	return out
}

// DecodeIndex strictly decodes an index file.
func DecodeIndex(data []byte, base int64, times, keys bool) (v int, items []Item, err error) {
	if len(data) == 0 {
		return V1, nil, nil
	}
	if len(data) < 8 {
		return 0, nil, fmt.Errorf("refcodec: index shorter than a header")
	}
	body := data
	if data[0] == 0xFF && string(data[1:6]) == "klevi" {
		if data[6] != 1 {
			return 0, nil, fmt.Errorf("refcodec: index version byte %d", data[6])
		}
		fl := data[7]
		if fl&^3 != 0 || (fl&1 != 0) != times || (fl&2 != 0) != keys {
			return 0, nil, fmt.Errorf("refcodec: index flags %02x do not match times=%v keys=%v", fl, times, keys)
		}
		v = V2
		body = data[8:]
	} else if int64(binary.BigEndian.Uint64(data)) == base {
		v = V1
	} else {
		return 0, nil, fmt.Errorf("refcodec: index header not recognised")
	}
	sz := int(ItemSize(times, keys))
	if len(body)%sz != 0 {
		return 0, nil, fmt.Errorf("refcodec: index size %d not a multiple of %d", len(body), sz)
	}
	for p := 0; p < len(body); p += sz {
		var it Item
		it.Off = int64(binary.BigEndian.Uint64(body[p:]))
		it.Pos = int64(binary.BigEndian.Uint64(body[p+8:]))
		q := p + 16
		if times {
			it.TS = int64(binary.BigEndian.Uint64(body[q:]))
			q += 8
		}
		if keys {
			it.Hash = binary.BigEndian.Uint64(body[q:])
		}
		items = append(items, it)
	}
	return v, items, nil
}

// DeriveIndex computes the index of a log file from its records: ts is the running maximum
// of the record times within the file, hash is FNV-1a-64 of the key.
func DeriveIndex(recs []Rec, times, keys bool) []Item {
	var out []Item
	var prev int64
	for i, r := range recs {
		it := Item{Off: r.Off, Pos: r.Pos}
		if times {
			it.TS = r.US
			if i > 0 && prev > it.TS {
				it.TS = prev
			}
			prev = it.TS
		}
		if keys {
			it.Hash = FNV1a64(r.Key)
		}
		out = append(out, it)
	}
	return out
}
