package harness

import (
	"github.com/klev-dev/klevdb"
)

// ---- C01: content fidelity ----

func hooksC01() Hooks {
	check := func(r *Run, where string) {
		mc := []int64{1, 2, 3, 7, 32, 40}[r.Obs.Intn(6)]
		got, next, diag := r.scan(mc)
		if diag != "" {
			r.violate("scan|error|"+scanDiagKind(diag), "%s: reading the log from the oldest offset failed: %s", where, diag)
			return
		}
		if d := diffLive(got, r.M.Live); d != "" {
			r.violate("scan|"+diffKind(d), "%s: scan differs from published-minus-deleted: %s", where, d)
			return
		}
		for i := 1; i < len(got); i++ {
			if got[i].Off <= got[i-1].Off {
				r.violate("scan|order", "%s: offsets not strictly increasing: %d after %d", where, got[i].Off, got[i-1].Off)
				return
			}
		}
		_ = next
		r.noteState()
	}
	return Hooks{
		Strict:    []string{"Open", "Close"},
		AfterOpen: func(r *Run) { check(r, "after first open") },
		AfterStep: func(r *Run, op *Op) { check(r, "after "+op.K) },
	}
}

func scanDiagKind(d string) string {
	for _, k := range []string{"no offset items", "did not terminate", "moved backwards", "corrupted", "panic", "not found", "invalid offset"} {
		if contains(d, k) {
			return dash(k)
		}
	}
	return "other"
}

func contains(s, sub string) bool {
	for i := 0; i+len(sub) <= len(s); i++ {
		if s[i:i+len(sub)] == sub {
			return true
		}
	}
	return false
}

func dash(s string) string {
	b := []byte(s)
	for i := range b {
		if b[i] == ' ' {
			b[i] = '-'
		}
	}
	return string(b)
}

// noteState records coarse features of the reached state for the distinct-state measure.
func (r *Run) noteState() {
	if r.L == nil {
		return
	}
	bases := segmentBases(r.Dir)
	nseg := len(bases)
	switch {
	case nseg >= 4:
		r.feat("segs>=4")
	case nseg >= 2:
		r.feat("segs2-3")
	}
	if nseg >= 2 {
		r.probe("multi_segment")
	}
	live := r.M.Live
	if len(live) > 0 && nseg > 0 && live[len(live)-1].Off < bases[nseg-1] {
		r.feat("head-empty")
		r.probe("head_empty_nonempty_log")
	}
	if len(live) == 0 && r.M.Next > 0 {
		r.feat("emptied")
	}
	if int64(len(live)) < r.M.Next && len(live) > 0 {
		// holes?
		for i := 1; i < len(live); i++ {
			if live[i].Off != live[i-1].Off+1 {
				r.feat("holes")
				break
			}
		}
		if live[0].Off > 0 {
			r.feat("trimmed-front")
		}
	}
	for i, b := range bases {
		_ = i
		if len(live) > 0 && b > 0 {
			// segment whose base is not a live offset = impossible by construction; whose
			// base is above its first message cannot be seen here; note rebased segments
			if !r.M.IsLive(b) && b < r.M.Next && b != bases[nseg-1] {
				r.feat("base-not-live")
			}
		}
	}
}

// ---- C02: offsets dense, increasing, never reused ----

func hooksC02() Hooks {
	after := func(r *Run, where string) {
		var next int64
		err := guard(func() error {
			var e error
			next, e = r.L.NextOffset()
			return e
		})
		if err != nil {
			r.violate("NextOffset|error", "%s: NextOffset failed: %v", where, err)
			return
		}
		if next != r.M.Next {
			kind := "ahead"
			if next < r.M.Next {
				kind = "moved-back"
			}
			r.violate("NextOffset|"+kind, "%s: NextOffset=%d, one more than the largest offset ever assigned is %d", where, next, r.M.Next)
			return
		}
		// offsets visible in the log are exactly those the model assigned
		got, fin, diag := r.scan(int64(1 + r.Obs.Intn(40)))
		if diag != "" {
			r.abort("scan: %s", diag)
			return
		}
		for i, g := range got {
			if g.Off < 0 || g.Off >= r.M.Next {
				r.violate("scan|offset-never-assigned", "%s: scan shows offset %d, never assigned (next=%d)", where, g.Off, r.M.Next)
				return
			}
			if i > 0 && g.Off <= got[i-1].Off {
				r.violate("scan|order", "%s: offsets not increasing: %d after %d", where, g.Off, got[i-1].Off)
				return
			}
			if p := r.M.Published[g.Off]; !sameMsg(p, g) {
				r.violate("scan|offset-reused", "%s: offset %d now holds %v, was assigned to %v", where, g.Off, g, p)
				return
			}
		}
		if fin != r.M.Next {
			r.violate("scan|end", "%s: cursor ended at %d, NextOffset is %d", where, fin, r.M.Next)
		}
		r.noteState()
	}
	return Hooks{
		Strict:     []string{"Publish", "Sync"},
		AfterOpen:  func(r *Run) { after(r, "new log") },
		AfterStep:  func(r *Run, op *Op) { after(r, "after "+op.K) },
		OnReopened: func(r *Run, op *Op) { r.probe("reopen_checked") },
		OnPublish: func(r *Run, before int64, in []klevdb.Message, ret int64, err error) {
			if err != nil {
				return
			}
			n := int64(len(in))
			if ret != before+n {
				call := "Publish"
				if in == nil && n == 0 && r.P.Ops[r.Step-1].K == "sync" {
					call = "Sync"
				}
				r.violate(call+"|return", "%s of %d messages returned %d, previous NextOffset %d", call, n, ret, before)
				return
			}
			for i := range in {
				if in[i].Offset != before+int64(i) {
					r.violate("Publish|assigned", "message %d of the batch was assigned offset %d, want %d", i, in[i].Offset, before+int64(i))
					return
				}
			}
		},
	}
}
