package harness

import (
	"fmt"
	"sync"
	"time"
)

// minimise shrinks a failing plan by delta debugging over its operation list (and, for
// engine S, over tasks and their scripts), accepting a candidate only if a fresh process
// reports the same violation signature.
func (c *SuperCfg) minimise(bin string, p *Plan, sig string, budget time.Duration) *Plan {
	deadline := time.Now().Add(budget)
	cur := p.Clone()
	seq := 0

	// try evaluates candidates in parallel and returns the first (lowest index) that still
	// shows the signature, as reported by the engine (with its concrete fault, if any).
	try := func(cands []*Plan) *Plan {
		if len(cands) == 0 || time.Now().After(deadline) {
			return nil
		}
		res := make([]*Plan, len(cands))
		var wg sync.WaitGroup
		sem := make(chan struct{}, 8)
		for i, cand := range cands {
			wg.Add(1)
			seq++
			go func(i int, cand *Plan, tag string) {
				defer wg.Done()
				sem <- struct{}{}
				defer func() { <-sem }()
				if time.Now().After(deadline) {
					return
				}
				r, stderr, code := c.execPlan(bin, cand, tag, 60*time.Second)
				if r != nil {
					for _, v := range r.Viols {
						if v.Sig == sig {
							if v.Plan != nil {
								res[i] = v.Plan
							} else {
								res[i] = cand
							}
							return
						}
					}
					return
				}
				if s, _ := crashSig(cand.Prop, crashInfo{stderr: stderr, code: code}); sameCrash(s, sig) {
					res[i] = cand
				}
			}(i, cand, fmt.Sprintf("min%d", seq))
		}
		wg.Wait()
		for _, r := range res {
			if r != nil {
				return r
			}
		}
		return nil
	}

	searchBase := func(q *Plan) *Plan {
		b := q.Clone()
		if b.Engine == "K" || b.Engine == "D" {
			b.Fault = nil
		}
		b.Expect = nil
		return b
	}

	if len(cur.Tasks) > 0 {
		// engine S: drop whole tasks, then single calls
		for changed := true; changed && time.Now().Before(deadline); {
			changed = false
			var cands []*Plan
			for i := range cur.Tasks {
				if len(cur.Tasks) <= 1 {
					break
				}
				q := searchBase(cur)
				q.Tasks = append(q.Tasks[:i:i], q.Tasks[i+1:]...)
				if q.Sched != nil {
					q.Sched.fixAfterTaskRemoval(i)
				}
				cands = append(cands, q)
			}
			for i := range cur.Tasks {
				for j := range cur.Tasks[i] {
					q := searchBase(cur)
					q.Tasks[i] = append(q.Tasks[i][:j:j], q.Tasks[i][j+1:]...)
					cands = append(cands, q)
				}
			}
			if r := try(cands); r != nil {
				cur = r
				changed = true
			}
		}
	}

	if len(cur.Tasks) > 0 {
		cur = c.minimiseSchedule(bin, cur, sig, deadline)
	}

	// ddmin over Ops
	n := 2
	for len(cur.Ops) >= 1 && time.Now().Before(deadline) {
		ops := cur.Ops
		chunk := (len(ops) + n - 1) / n
		if chunk < 1 {
			chunk = 1
		}
		var cands []*Plan
		for s := 0; s < len(ops); s += chunk {
			e := s + chunk
			if e > len(ops) {
				e = len(ops)
			}
			q := searchBase(cur)
			q.Ops = append(append([]Op(nil), ops[:s]...), ops[e:]...)
			cands = append(cands, q)
		}
		if r := try(cands); r != nil {
			cur = r
			if n > 2 {
				n--
			}
			continue
		}
		if chunk == 1 {
			break
		}
		n *= 2
		if n > len(ops) {
			n = len(ops)
		}
	}

	// simplify arguments: one message per publish, then smaller batches of the rest
	for changed := true; changed && time.Now().Before(deadline); {
		changed = false
		var cands []*Plan
		for i := range cur.Ops {
			if cur.Ops[i].K == "pub" && len(cur.Ops[i].Msgs) > 1 {
				q := searchBase(cur)
				q.Ops[i].Msgs = q.Ops[i].Msgs[:len(q.Ops[i].Msgs)/2]
				cands = append(cands, q)
			}
			if cur.Ops[i].K == "reopen" && (len(cur.Ops[i].Tools) > 0 || len(cur.Ops[i].RmIdx) > 0) {
				q := searchBase(cur)
				q.Ops[i].Tools, q.Ops[i].RmIdx = nil, nil
				cands = append(cands, q)
			}
		}
		if r := try(cands); r != nil {
			cur = r
			changed = true
		}
	}
	return cur
}

// minimiseSchedule makes the schedule of an engine-S plan explicit (the complete decision
// list of the failing run, replayed with strategy "random" as fallback) and then removes
// context switches one at a time, from the end, as long as the same violation persists.
func (c *SuperCfg) minimiseSchedule(bin string, p *Plan, sig string, deadline time.Time) *Plan {
	run := func(q *Plan, tag string) (*RunResult, bool) {
		r, _, _ := c.execPlan(bin, q, tag, 60*time.Second)
		if r == nil {
			return nil, false
		}
		for _, v := range r.Viols {
			if v.Sig == sig {
				return r, true
			}
		}
		return r, false
	}
	r0, ok := run(p, "sch0")
	if !ok || len(r0.Trace) == 0 {
		return p // a process death (race report, deadlock): the seed-derived schedule stays
	}
	mk := func(tr []int32) *Plan {
		q := p.Clone()
		q.Expect = nil
		q.Sched = &SchedP{Strategy: 0, HoldTask2: -1, Race: p.Sched != nil && p.Sched.Race, Decisions: append([]int32(nil), tr...)}
		return q
	}
	best := mk(r0.Trace)
	rb, ok := run(best, "sch1")
	if !ok || rb.Diverged > 0 {
		return p
	}
	tr := rb.Trace
	seq := 0
	for i := len(tr) - 1; i >= 1 && time.Now().Before(deadline); i-- {
		if i >= len(tr) {
			i = len(tr) - 1
			if i < 1 {
				break
			}
		}
		if tr[i] == tr[i-1] {
			continue
		}
		cand := append([]int32(nil), tr...)
		cand[i] = cand[i-1] // stay with the task that was running
		seq++
		q := mk(cand)
		if r, ok := run(q, fmt.Sprintf("sch%d", seq+1)); ok && len(r.Trace) > 0 {
			// adopt the decisions the run really took (a recorded task may not have been runnable)
			tr = r.Trace
			best = mk(tr)
		}
	}
	return best
}
