module verif/instr

go 1.25.0
